// Package conceng runs multi-statement transactions from several goroutines against one instance, records
// what every completed statement returned (with call/return stamps from a shared logical clock) and checks
// the recorded history: C04 (a completed statement shows committed data plus own writes, never another
// transaction's uncommitted or rolled-back write, never hides a committed row) and C05 (the committed
// transactions are conflict-serializable on the rows they read and wrote: no lost update, no non-repeatable
// read, no cycle in the dependency graph).
//
// Every write carries a globally unique value and is preceded, in the same transaction, by a read of the row,
// so the version a write replaced and the writer of every version read are known from the history alone.
package conceng

import (
	"fmt"
	"math/rand"
	"os"
	"runtime"
	"sort"
	"strings"
	"sync"
	"sync/atomic"
	"time"

	"verifharness/dbh"
	"verifharness/vf"
)

type Config struct {
	Rows     int    `json:"rows"`
	Clients  int    `json:"clients"`
	TxnsPer  int    `json:"txns_per_client"`
	KB       int    `json:"kb"`
	File     bool   `json:"file_mode"`
	SQLTable bool   `json:"sql_created"` // CREATE TABLE through SQL: every column (also v) gets a skip-list index
	IDIndex  string `json:"id_index"`    // index kind of column id for catalog-created tables
	Reloc    bool   `json:"relocating"`  // writes also change the length of a varchar column, so rows move to other slots/pages
	Procs    int    `json:"gomaxprocs"`
	Seed     int64  `json:"seed"`
}

const initBase = 1000000 // initial value of row i is initBase+i; written values are 1,2,3,... (< initBase)

type Ev struct {
	Kind   string   `json:"k"` // r | w
	Path   string   `json:"path"`
	SQL    string   `json:"sql"`
	Call   int64    `json:"call"`
	Ret    int64    `json:"ret"`
	Expect []int    `json:"expect,omitempty"` // ids the predicate selects (rows are never inserted or deleted)
	Rows   [][2]int `json:"rows,omitempty"`   // (id, v) returned
	ID     int      `json:"id,omitempty"`     // w: row
	Val    int      `json:"val,omitempty"`    // w: new value
	Failed bool     `json:"failed,omitempty"` // the engine aborted the transaction inside this statement
	Err    string   `json:"err,omitempty"`
}

type TxnRec struct {
	Client     int    `json:"client"`
	N          int    `json:"n"`
	Evs        []Ev   `json:"evs"`
	Status     string `json:"status"` // committed | aborted | engine-aborted
	CommitCall int64  `json:"commit_call,omitempty"`
	CommitRet  int64  `json:"commit_ret,omitempty"`
}

type Stats struct {
	Txns, Committed, EngineAborted, Aborted int
	Reads, Writes                           int
	ReadsOfOthersCommitted                  int // reads that returned a value written by another (committed) transaction
	MaxActive                               int
	Relocations                             int
}

type Result struct {
	Hist  []TxnRec
	Final map[int]int
	Stats Stats
}

func tableDef(c *Config) *dbh.TableDef {
	idx := c.IDIndex
	if idx == "" {
		idx = dbh.IdxSkip
	}
	def := &dbh.TableDef{Name: "t", SQL: c.SQLTable, Cols: []dbh.Col{{Name: "id", T: "i", Idx: idx}, {Name: "k", T: "i", Idx: dbh.IdxSkip}, {Name: "v", T: "i", Idx: dbh.IdxNone}}}
	if c.Reloc {
		def.Cols = append(def.Cols, dbh.Col{Name: "s", T: "s", Idx: dbh.IdxNone})
	}
	return def
}

// Run executes the workload and returns the recorded history.
func Run(c *Config) (*Result, *vf.Failure) {
	old := runtime.GOMAXPROCS(c.Procs)
	defer runtime.GOMAXPROCS(old)
	dbh.NoBackground(true)
	var db *dbh.DB
	dir := ""
	if c.File {
		dir = dbh.TempDir("conceng")
		defer os.RemoveAll(dir)
		db = dbh.Open(dir+"/db", c.KB, true)
	} else {
		db = dbh.Open("conceng", c.KB, false)
	}
	defer func() { func() { defer func() { recover() }(); db.Stop() }() }()
	if err := db.CreateTable(tableDef(c)); err != nil {
		return nil, vf.Failf("create-error", "%v", err)
	}
	for i := 0; i < c.Rows; i++ {
		q := fmt.Sprintf("INSERT INTO t(id, k, v) VALUES (%d, %d, %d);", i, i%3, initBase+i)
		if c.Reloc {
			q = fmt.Sprintf("INSERT INTO t(id, k, v, s) VALUES (%d, %d, %d, '%s');", i, i%3, initBase+i, strings.Repeat("i", 250))
		}
		if _, err := db.FrontDoor(q); err != nil {
			return nil, vf.Failf("load-error", "%v", err)
		}
	}
	var clock, valCounter int64
	now := func() int64 { return atomic.AddInt64(&clock, 1) }
	var active, maxActive int32
	res := &Result{}
	var mu sync.Mutex
	var wg sync.WaitGroup
	var firstPanic atomic.Value
	for cl := 0; cl < c.Clients; cl++ {
		wg.Add(1)
		go func(cl int) {
			defer wg.Done()
			defer func() {
				if r := recover(); r != nil {
					buf := make([]byte, 1<<16)
					n := runtime.Stack(buf, false)
					firstPanic.CompareAndSwap(nil, fmt.Sprintf("%v\n%s", r, buf[:n]))
				}
			}()
			rng := rand.New(rand.NewSource(c.Seed*7919 + int64(cl)))
			for n := 0; n < c.TxnsPer; n++ {
				rec := TxnRec{Client: cl, N: n}
				a := atomic.AddInt32(&active, 1)
				for {
					m := atomic.LoadInt32(&maxActive)
					if a <= m || atomic.CompareAndSwapInt32(&maxActive, m, a) {
						break
					}
				}
				t := db.Begin()
				read := func(path string, x, y int) bool {
					ev := Ev{Kind: "r", Path: path}
					switch path {
					case "point":
						ev.SQL = fmt.Sprintf("SELECT id, v FROM t WHERE id = %d;", x)
						ev.Expect = []int{x}
					case "seq":
						ev.SQL = fmt.Sprintf("SELECT id, v FROM t WHERE id = %d OR id = 7777777;", x)
						ev.Expect = []int{x}
					case "group":
						ev.SQL = fmt.Sprintf("SELECT id, v FROM t WHERE k = %d;", x)
						for i := 0; i < c.Rows; i++ {
							if i%3 == x {
								ev.Expect = append(ev.Expect, i)
							}
						}
					default: // range
						ev.SQL = fmt.Sprintf("SELECT id, v FROM t WHERE id >= %d AND id <= %d;", x, y)
						for i := x; i <= y && i < c.Rows; i++ {
							ev.Expect = append(ev.Expect, i)
						}
					}
					ev.Call = now()
					rows, err := t.ExecSQL(ev.SQL, nil)
					ev.Ret = now()
					if t.Done {
						ev.Failed = true
					} else if err != nil {
						ev.Err = err.Error()
					}
					for _, r := range rows {
						ev.Rows = append(ev.Rows, [2]int{int(r[0].I), int(r[1].I)})
					}
					rec.Evs = append(rec.Evs, ev)
					return !t.Done
				}
				write := func(path string, x int) bool {
					ev := Ev{Kind: "w", Path: path, ID: x, Val: int(atomic.AddInt64(&valCounter, 1))}
					set := fmt.Sprintf("v = %d", ev.Val)
					if c.Reloc {
						set += fmt.Sprintf(", s = '%s'", strings.Repeat("r", 60+rng.Intn(900)))
					}
					where := fmt.Sprintf("id = %d", x)
					if path == "seq" {
						where += " OR id = 7777777"
					}
					ev.SQL = fmt.Sprintf("UPDATE t SET %s WHERE %s;", set, where)
					ev.Call = now()
					_, err := t.ExecSQL(ev.SQL, nil)
					ev.Ret = now()
					if t.Done {
						ev.Failed = true
					} else if err != nil {
						ev.Err = err.Error()
					}
					rec.Evs = append(rec.Evs, ev)
					return !t.Done
				}
				units := 1 + rng.Intn(3)
				ok := true
				mustAbort := false
				for u := 0; u < units && ok; u++ {
					x := rng.Intn(c.Rows)
					switch rng.Intn(7) {
					case 6: // a delete that is rolled back afterwards (rows are never really removed): other transactions must not
						// look through the delete mark
						ev := Ev{Kind: "d", Path: "point", ID: x, SQL: fmt.Sprintf("DELETE FROM t WHERE id = %d;", x)}
						ev.Call = now()
						_, err := t.ExecSQL(ev.SQL, nil)
						ev.Ret = now()
						if t.Done {
							ev.Failed = true
						} else if err != nil {
							ev.Err = err.Error()
						}
						rec.Evs = append(rec.Evs, ev)
						ok = !t.Done
						mustAbort = true
					case 0:
						ok = read("group", rng.Intn(3), 0)
					case 1:
						ok = read("range", x, x+rng.Intn(3))
					case 2:
						ok = read([]string{"point", "seq"}[rng.Intn(2)], x, 0)
					default: // read-modify-write of one row
						ok = read([]string{"point", "seq"}[rng.Intn(2)], x, 0)
						if ok {
							ok = write([]string{"point", "point", "seq"}[rng.Intn(3)], x)
						}
					}
				}
				switch {
				case !ok:
					rec.Status = "engine-aborted"
				case mustAbort || rng.Intn(7) == 0:
					t.Abort()
					rec.Status = "aborted"
				default:
					rec.CommitCall = now()
					t.Commit()
					rec.CommitRet = now()
					rec.Status = "committed"
				}
				atomic.AddInt32(&active, -1)
				mu.Lock()
				res.Hist = append(res.Hist, rec)
				mu.Unlock()
			}
		}(cl)
	}
	done := make(chan struct{})
	go func() { wg.Wait(); close(done) }()
	if !vf.WaitScheduled(done, 180*time.Second) {
		buf := make([]byte, 1<<20)
		n := runtime.Stack(buf, true)
		return res, &vf.Failure{Class: "workload-hang", Msg: "clients did not finish within 180 s of running time", Extra: string(buf[:n])}
	}
	if p := firstPanic.Load(); p != nil {
		return res, &vf.Failure{Class: "c04:engine-panic", Msg: "a statement neither completed nor aborted, the engine panicked: " + strings.SplitN(p.(string), "\n", 2)[0], Extra: p}
	}
	res.Stats.MaxActive = int(maxActive)
	rows, err := db.ScanAll("t")
	if err != nil {
		return res, vf.Failf("final-scan-error", "%v", err)
	}
	res.Final = map[int]int{}
	for _, r := range rows {
		res.Final[int(r[0].I)] = int(r[2].I)
	}
	if len(rows) != c.Rows {
		return res, vf.Failf("c04:final-row-count", "table holds %d rows at the end, %d were loaded and none inserted or deleted", len(rows), c.Rows)
	}
	return res, nil
}

type writeRef struct {
	txn int // index into hist
	ev  int
}

// Check analyses a recorded history. Failure classes are prefixed with the property they belong to ("c04:" / "c05:").
func Check(c *Config, res *Result) []*vf.Failure {
	hist := res.Hist
	st := &res.Stats
	var out []*vf.Failure
	fail := func(class, format string, a ...interface{}) {
		if len(out) < 20 {
			out = append(out, vf.Failf(class, format, a...))
		}
	}
	writer := map[int]writeRef{} // value -> who wrote it
	for ti := range hist {
		for ei, ev := range hist[ti].Evs {
			if ev.Kind == "w" {
				writer[ev.Val] = writeRef{ti, ei}
			}
		}
	}
	name := func(ti int) string {
		return fmt.Sprintf("T(client %d #%d, %s)", hist[ti].Client, hist[ti].N, hist[ti].Status)
	}
	type verRead struct { // committed transaction ti read version val of row id
		ti        int
		call, ret int64
	}
	readsOf := map[[2]int][]verRead{}   // (id, version) -> readers (other than the version's writer)
	overwrote := map[[2]int][]int{}     // (id, version) -> committed transactions that replaced it
	firstWrite := map[int]map[int]int{} // ti -> id -> version replaced by the transaction's first write of that row
	for ti := range hist {
		t := &hist[ti]
		st.Txns++
		switch t.Status {
		case "committed":
			st.Committed++
		case "aborted":
			st.Aborted++
		default:
			st.EngineAborted++
		}
		own := map[int]int{}
		seen := map[int]int{}
		deleted := map[int]bool{} // rows this transaction itself deleted (it is rolled back at its end)
		for ei := range t.Evs {
			ev := &t.Evs[ei]
			if ev.Failed {
				break // no answer was returned
			}
			if ev.Err != "" {
				fail("c04:statement-error", "%s: %s returned error %q", name(ti), ev.SQL, ev.Err)
				continue
			}
			if ev.Kind == "d" {
				deleted[ev.ID] = true
				continue
			}
			if ev.Kind == "w" {
				st.Writes++
				if _, mine := own[ev.ID]; !mine {
					if firstWrite[ti] == nil {
						firstWrite[ti] = map[int]int{}
					}
					if pre, ok := seen[ev.ID]; ok {
						firstWrite[ti][ev.ID] = pre
					}
				}
				own[ev.ID] = ev.Val
				continue
			}
			st.Reads++
			got := map[int]int{}
			for _, r := range ev.Rows {
				if _, dup := got[r[0]]; dup {
					fail("c04:row-twice", "%s: %s returned row %d twice: %v", name(ti), ev.SQL, r[0], ev.Rows)
				}
				got[r[0]] = r[1]
			}
			exp := map[int]bool{}
			for _, id := range ev.Expect {
				exp[id] = true
				if _, ok := got[id]; !ok && !deleted[id] {
					fail("c04:committed-row-hidden:"+ev.Path, "%s: %s completed without row %d (rows are never deleted): returned %v", name(ti), ev.SQL, id, ev.Rows)
				}
			}
			for id, v := range got {
				if deleted[id] {
					fail("c04:own-delete-invisible:"+ev.Path, "%s: %s returned row %d which the transaction itself had deleted before", name(ti), ev.SQL, id)
					continue
				}
				if !exp[id] {
					fail("c04:unexpected-row:"+ev.Path, "%s: %s returned row %d which does not match the predicate: %v", name(ti), ev.SQL, id, ev.Rows)
					continue
				}
				if mine, ok := own[id]; ok {
					if v != mine {
						fail("c04:own-write-invisible:"+ev.Path, "%s: %s returned v=%d for row %d after the transaction itself wrote v=%d", name(ti), ev.SQL, v, id, mine)
					}
					continue
				}
				if prev, ok := seen[id]; ok && prev != v {
					fail("c05:non-repeatable-read:"+ev.Path, "%s: row %d read as v=%d and later as v=%d inside one transaction (no own write in between); second read: %s", name(ti), id, prev, v, ev.SQL)
				}
				seen[id] = v
				if v == initBase+id {
					if t.Status == "committed" {
						readsOf[[2]int{id, v}] = append(readsOf[[2]int{id, v}], verRead{ti, ev.Call, ev.Ret})
					}
					continue
				}
				w, ok := writer[v]
				if !ok || hist[w.txn].Evs[w.ev].ID != id {
					fail("c04:value-never-written", "%s: %s returned v=%d for row %d, a value no transaction wrote to that row", name(ti), ev.SQL, v, id)
					continue
				}
				wt := &hist[w.txn]
				if wt.Status != "committed" {
					fail("c04:read-of-rolled-back-write:"+ev.Path, "%s: %s returned v=%d for row %d, written by %s which never committed", name(ti), ev.SQL, v, id, name(w.txn))
					continue
				}
				if ev.Ret < wt.CommitCall {
					fail("c04:dirty-read:"+ev.Path, "%s: %s returned v=%d for row %d at time %d, before its writer %s called commit (time %d)", name(ti), ev.SQL, v, id, ev.Ret, name(w.txn), wt.CommitCall)
					continue
				}
				st.ReadsOfOthersCommitted++
				if t.Status == "committed" {
					readsOf[[2]int{id, v}] = append(readsOf[[2]int{id, v}], verRead{ti, ev.Call, ev.Ret})
				}
			}
		}
		if t.Status == "committed" {
			for id, pre := range firstWrite[ti] {
				overwrote[[2]int{id, pre}] = append(overwrote[[2]int{id, pre}], ti)
			}
		}
	}
	// lost update: one version replaced by two committed transactions
	for key, ws := range overwrote {
		if len(ws) > 1 {
			fail("c05:lost-update", "row %d: version v=%d was read and replaced by %d committed transactions (%s and %s): one update is lost", key[0], key[1], len(ws), name(ws[0]), name(ws[1]))
		}
	}
	// stale read: a statement that started after the replacing transaction's commit returned still got the old version
	for key, rs := range readsOf {
		for _, w := range overwrote[key] {
			for _, r := range rs {
				if r.ti != w && hist[w].CommitRet > 0 && hist[w].CommitRet < r.call {
					fail("c04:stale-read", "row %d: %s got version v=%d in a statement called at time %d, after %s, which replaced that version, had returned from commit (time %d)", key[0], name(r.ti), key[1], r.call, name(w), hist[w].CommitRet)
				}
			}
		}
	}
	// final state: the tip of every row's committed version chain
	if res.Final != nil {
		for id := 0; id < c.Rows; id++ {
			tip := initBase + id
			for hops := 0; hops <= len(hist); hops++ {
				ws := overwrote[[2]int{id, tip}]
				if len(ws) == 0 {
					break
				}
				// last write of that transaction to the row
				last := tip
				for _, ev := range hist[ws[0]].Evs {
					if ev.Kind == "w" && ev.ID == id && !ev.Failed {
						last = ev.Val
					}
				}
				if last == tip {
					break
				}
				tip = last
			}
			if got, ok := res.Final[id]; !ok || got != tip {
				fail("c05:final-value", "row %d ends with v=%d; the last committed write in its version chain is v=%d", id, res.Final[id], tip)
			}
		}
	}
	// dependency graph over committed transactions
	adj := map[int]map[int]string{}
	edge := func(a, b int, why string) {
		if a == b {
			return
		}
		if adj[a] == nil {
			adj[a] = map[int]string{}
		}
		if _, ok := adj[a][b]; !ok {
			adj[a][b] = why
		}
	}
	for key, rs := range readsOf {
		id, v := key[0], key[1]
		if w, ok := writer[v]; ok && hist[w.txn].Status == "committed" {
			for _, r := range rs {
				edge(w.txn, r.ti, fmt.Sprintf("WR row %d v=%d", id, v))
			}
		}
		for _, o := range overwrote[key] {
			for _, r := range rs {
				edge(r.ti, o, fmt.Sprintf("RW row %d (read v=%d, replaced)", id, v))
			}
		}
	}
	for key, os := range overwrote {
		if w, ok := writer[key[1]]; ok && hist[w.txn].Status == "committed" {
			for _, o := range os {
				edge(w.txn, o, fmt.Sprintf("WW row %d v=%d", key[0], key[1]))
			}
		}
	}
	if cyc := findCycle(adj); cyc != nil {
		var parts []string
		for i := range cyc {
			a, b := cyc[i], cyc[(i+1)%len(cyc)]
			parts = append(parts, fmt.Sprintf("%s -> %s [%s]", name(a), name(b), adj[a][b]))
		}
		fail("c05:dsg-cycle", "committed transactions are not serializable: %s", strings.Join(parts, "; "))
	}
	return out
}

func findCycle(adj map[int]map[int]string) []int {
	color := map[int]int{}
	var stack []int
	var cyc []int
	var nodes []int
	for a := range adj {
		nodes = append(nodes, a)
	}
	sort.Ints(nodes)
	var dfs func(a int) bool
	dfs = func(a int) bool {
		color[a] = 1
		stack = append(stack, a)
		var next []int
		for b := range adj[a] {
			next = append(next, b)
		}
		sort.Ints(next)
		for _, b := range next {
			if color[b] == 1 {
				for i, x := range stack {
					if x == b {
						cyc = append([]int{}, stack[i:]...)
						return true
					}
				}
			}
			if color[b] == 0 && dfs(b) {
				return true
			}
		}
		stack = stack[:len(stack)-1]
		color[a] = 2
		return false
	}
	for _, a := range nodes {
		if color[a] == 0 && dfs(a) {
			return cyc
		}
	}
	return nil
}

// Case is what a failing run is saved as: the configuration plus the recorded history (trimmed).
type Case struct {
	Config
	History []TxnRec `json:"history,omitempty"`
}

const Rule = "Case (goroutine tier) = 3-10 client goroutines (GOMAXPROCS 2/4/16) each running 8-40 multi-statement transactions on t(id,k,v[,s]) with 4-12 rows, in-memory or file-backed, SQL-created (every column indexed) or catalog-created (id: skip list / unique skip list), optionally with writes that also change the length of a varchar column so that rows relocate: 1-3 units per transaction, a unit is a DELETE of one row (such a transaction is rolled back at its end, so rows are never really removed), a read through one access path (index point, sequential scan via a never-true OR branch, index lookup of a group column, index range) or a read-modify-write of one row (read, then UPDATE with a globally unique value); commit or abort. Every completed statement's answer is recorded with call/return stamps of a shared logical clock. Oracle over the recorded history: a completed read returns exactly the rows its predicate selects (rows are never inserted or deleted), own writes are visible, every value read was written to that row by a transaction that had called commit before the read returned and was not replaced by a transaction whose commit returned before the read was called (C04); inside one transaction a row is never read with two different values, no version is replaced by two committed transactions, the final table holds the tip of every version chain, and the dependency graph (WR / WW / RW edges derived from the unique values) of the committed transactions is acyclic (C05). Non-trivial = a run in which at least two transactions were active at once and some read returned a value committed by another transaction."

// Campaign runs n generated workloads and judges failures whose class starts with prefix (the other property's
// classes are counted only).
func Campaign(t vf.TB, s *vf.Session, prefix string, n int) {
	rng := rand.New(rand.NewSource(s.Seed*15485863 + int64(s.Shard)))
	for i := 0; i < n; i++ {
		c := &Config{Rows: 4 + rng.Intn(9), Clients: 3 + rng.Intn(8), TxnsPer: 8 + rng.Intn(33), KB: []int{200, 400}[rng.Intn(2)], File: rng.Intn(4) == 0,
			SQLTable: rng.Intn(3) == 0, IDIndex: []string{dbh.IdxSkip, dbh.IdxUniqSkip}[rng.Intn(2)], Reloc: rng.Intn(3) == 0, Procs: []int{2, 4, 16}[rng.Intn(3)], Seed: rng.Int63()}
		if f := One(s, c, prefix); f != nil {
			if f.Class == "workload-hang" {
				// the stuck goroutines stay behind; further runs in this process would only wait for their time limits
				s.Inconclusive(f.Msg)
				return
			}
			s.Judge(t, f.Extra, f)
			return
		}
	}
}

// One runs one workload, counts it and returns the first failure belonging to prefix (Extra = *Case).
func One(s *vf.Session, c *Config, prefix string) *vf.Failure {
	var res *Result
	var fails []*vf.Failure
	f, _ := vf.WithTimeout(400*time.Second, func() *vf.Failure {
		var rf *vf.Failure
		res, rf = Run(c)
		if rf != nil {
			return rf
		}
		fails = Check(c, res)
		return nil
	})
	if res != nil {
		cls := []string{fmt.Sprintf("gomaxprocs-%d", c.Procs)}
		if c.Reloc {
			cls = append(cls, "relocating-writes")
		}
		if c.SQLTable {
			cls = append(cls, "sql-created-table")
		}
		s.Count(c, res.Stats.MaxActive >= 2 && res.Stats.ReadsOfOthersCommitted > 0, cls...)
		s.Class("concurrent-transactions", int64(res.Stats.Txns))
		s.Class("concurrent-committed", int64(res.Stats.Committed))
		s.Class("concurrent-engine-aborted", int64(res.Stats.EngineAborted))
		s.Class("concurrent-reads-checked", int64(res.Stats.Reads))
		s.Class("concurrent-reads-of-other-committed-writes", int64(res.Stats.ReadsOfOthersCommitted))
	}
	if f != nil {
		fails = append([]*vf.Failure{f}, fails...)
	}
	for _, ff := range fails {
		if ff.Class == "workload-hang" || ff.Class == "hang" {
			ff.Class = "workload-hang"
			return ff
		}
		if strings.HasPrefix(ff.Class, prefix) || !strings.HasPrefix(ff.Class, "c0") {
			cs := &Case{Config: *c}
			if res != nil {
				cs.History = res.Hist
				if len(cs.History) > 400 {
					cs.History = cs.History[:400]
				}
			}
			if ff.Extra != nil {
				ff.Msg += fmt.Sprintf(" | %v", firstLines(fmt.Sprint(ff.Extra), 12))
			}
			ff.Extra = cs
			return ff
		}
		s.Class("other-property-failure:"+ff.Class, 1)
	}
	return nil
}

func firstLines(s string, n int) string {
	l := strings.Split(s, "\n")
	if len(l) > n {
		l = l[:n]
	}
	return strings.Join(l, " / ")
}

// Replay re-runs a saved configuration a few times (schedules are not reproducible); any failing run fails.
func Replay(s *vf.Session, c *Config, prefix string) *vf.Failure {
	for i := 0; i < 5; i++ {
		cc := *c
		cc.Seed += int64(i)
		if f := One(s, &cc, prefix); f != nil {
			f.Extra = nil
			return f
		}
	}
	return nil
}
