// Package crasheng is the crash-recovery engine shared by C01, C02, C08 and C20: it runs a generated
// history of DML transactions on a recorded file-backed instance, derives for every crash point the
// set of table states the properties allow, restarts the engine on the materialised crash image and
// classifies any difference (lost committed effect -> C01, visible loser effect / torn commit -> C02).
package crasheng

import (
	"fmt"
	"os"
	"sort"
	"strings"
	"time"

	"verifharness/crashsim"
	"verifharness/dbh"
	"verifharness/vf"
)

// ---- explicit case --------------------------------------------------------------------------------

type TxnSpec struct {
	Stmts      []dbh.Stmt `json:"stmts"`
	End        string     `json:"end"`                  // "commit" | "abort" | "open" (left in flight until the next crash restart or the end of the history)
	Checkpoint bool       `json:"checkpoint,omitempty"` // forced checkpoint after the transaction finished
	Reopen     string     `json:"reopen,omitempty"`     // after the transaction: "crash" (files closed without flush) or "clean" (Shutdown), then reopen and continue
}

type History struct {
	KB             int            `json:"kb"`
	Tables         []dbh.TableDef `json:"tables"`
	Setup          []dbh.Stmt     `json:"setup"` // committed one by one before the history starts
	Txns           []TxnSpec      `json:"txns"`
	Tear           bool           `json:"tear"`                   // also explore torn final writes
	NoTornPage     bool           `json:"no_torn_page,omitempty"` // torn page writes excluded (known finding: pages have no checksum / double write)
	OnlyK          int            `json:"only_k,omitempty"`       // replay: explore just this crash point (event index, 0 = all)
	OnlyT          crashsim.Tear  `json:"only_tear,omitempty"`
	Growth         bool           `json:"growth"` // post-recovery growth phase
	MaxCrashPoints int            `json:"max_points"`
	PostCrash      bool           `json:"post_crash,omitempty"` // after the post-recovery statements: crash again (nothing flushed), restart, and require those statements' effects
}

type Stats struct {
	Events        int
	CrashPoints   int
	NontrivPoints int // committed writer before k and the image differs from fully flushed state
	LoserPoints   int // a loser's records are in the durable log or its changes on pages at k
	TornPoints    int
	Committed     int
	Reopens       int
	Aborted       int
	EngineAborted int
	Checkpoints   int
	Evictions     int // page writes outside checkpoints
	Relocations   int
	Classes       map[string]bool
	Trace         []string
}

// ---- run ----------------------------------------------------------------------------------------------

type txnInfo struct {
	begin, call, ret int // event indexes of markers (-1 if none)
	committed        bool
	state            *dbh.MDB // committed state after this transaction (if committed)
	EngineTxnID      int32
	Writes           int // statements of the transaction that changed at least one row
}

// Result of running the history (before any crash).
type Run struct {
	Dir      string
	Name     string
	Rec      *crashsim.Recorder
	Start    int // index of the hist-start marker
	End      int
	Txns     []txnInfo
	States   []*dbh.MDB // States[0] = after setup; States[i] = after i-th committed transaction
	RetAt    []int      // RetAt[i] = event index of commit-return of the i-th committed transaction (RetAt[0] = Start)
	CallAt   []int
	LoserVal map[string]map[string]bool // table -> row key written by a non-committed transaction
	LoserDel map[string]map[string]bool // table -> id key deleted by a non-committed transaction
	H        *History
}

func idKey(r dbh.Row) string { return r[0].Key() }

// Execute runs the history on a fresh recorded instance and stops it without flushing.
func Execute(h *History, st *Stats) (*Run, *vf.Failure) {
	dbh.NoBackground(true)
	dir := dbh.TempDir("crash")
	run := &Run{Dir: dir, Name: dir + "/db", H: h, LoserVal: map[string]map[string]bool{}, LoserDel: map[string]map[string]bool{}}
	run.Rec = crashsim.Install(run.Name)
	db := dbh.Open(run.Name, h.KB, true)
	crashsim.Uninstall()
	stopped := false
	defer func() {
		if !stopped {
			func() { defer func() { recover() }(); db.Stop() }()
		}
	}()
	m := dbh.NewMDB()
	for i := range h.Tables {
		if err := db.CreateTable(&h.Tables[i]); err != nil {
			return run, vf.Failf("setup-error", "create table: %v", err)
		}
		m.Create(&h.Tables[i])
		run.LoserVal[h.Tables[i].Name] = map[string]bool{}
		run.LoserDel[h.Tables[i].Name] = map[string]bool{}
	}
	for i := range h.Setup {
		s := &h.Setup[i]
		if _, err := db.Auto(s); err != nil {
			return run, vf.Failf("setup-error", "setup stmt %s: %v", s, err)
		}
		m.Apply(s, dbh.EvalMode{})
	}
	run.Start = run.Rec.Mark("hist-start")
	run.States = []*dbh.MDB{m.Clone()}
	run.RetAt = []int{run.Start}
	run.CallAt = []int{run.Start}
	cur := m
	var open []*dbh.Txn
	for ti := range h.Txns {
		spec := &h.Txns[ti]
		info := txnInfo{begin: run.Rec.Mark(fmt.Sprintf("begin %d", ti)), call: -1, ret: -1}
		t := db.Begin()
		info.EngineTxnID = int32(t.T.GetTransactionID())
		work := cur.Clone()
		engineAborted := false
		for si := range spec.Stmts {
			s := &spec.Stmts[si]
			before := snapshotIDs(work, s.Table)
			_, err := t.Exec(s)
			if t.Done { // the engine aborted the transaction (already rolled back)
				engineAborted = true
				st.EngineAborted++
				if len(open) > 0 {
					st.Classes["conflict-abort"] = true
				}
				noteLoser(run, before, work, s)
				break
			}
			if err != nil {
				// statement refused without aborting: no effect
				continue
			}
			if work.Apply(s, dbh.EvalMode{}) > 0 {
				info.Writes++
			}
			noteWrites(run, before, work, s, false)
			run.Rec.Mark("stmt-return")
		}
		switch {
		case engineAborted:
			info.ret = run.Rec.Mark(fmt.Sprintf("abort-return %d (engine)", ti))
			markLoser(run, cur, work)
			st.Aborted++
		case spec.End == "commit":
			info.call = run.Rec.Mark(fmt.Sprintf("commit-call %d", ti))
			t.Commit()
			info.ret = run.Rec.Mark(fmt.Sprintf("commit-return %d", ti))
			info.committed = true
			if len(open) > 0 {
				st.Classes["commit-while-another-transaction-is-in-flight"] = true
			}
			cur = work
			info.state = cur.Clone()
			run.States = append(run.States, info.state)
			run.RetAt = append(run.RetAt, info.ret)
			run.CallAt = append(run.CallAt, info.call)
			st.Committed++
		case spec.End == "abort":
			t.Abort()
			info.ret = run.Rec.Mark(fmt.Sprintf("abort-return %d", ti))
			markLoser(run, cur, work)
			st.Aborted++
		default: // left open; its locks stay, so only allowed at the end of the history (generator guarantees disjoint rows)
			open = append(open, t)
			markLoser(run, cur, work)
		}
		run.Txns = append(run.Txns, info)
		if spec.Checkpoint && len(open) == 0 {
			db.Checkpoint()
			run.Rec.Mark("checkpoint-return")
			st.Checkpoints++
		}
		if spec.Reopen == "crash" || (spec.Reopen != "" && len(open) == 0) {
			if len(open) > 0 {
				st.Classes["crash-restart-inside-history-with-transactions-in-flight"] = true
			}
			open = nil // transactions in flight at a crash restart are losers of that recovery
			// the same recorder keeps recording across the restart: the restart's own I/O (recovery page writes,
			// log truncation, re-seeded records) becomes part of the trace, and so do crash points inside it
			run.Rec.Mark("stop " + spec.Reopen)
			if spec.Reopen == "clean" {
				db.Shutdown()
			} else {
				db.Stop()
			}
			var ndb *dbh.DB
			f, hung := vf.WithTimeout(60*time.Second, func() *vf.Failure {
				run.Rec.Reinstall()
				ndb = dbh.Open(run.Name, h.KB, true)
				crashsim.Uninstall()
				return nil
			})
			crashsim.Uninstall()
			if f != nil {
				stopped = true
				if hung {
					f.Class = "restart-hang"
				} else {
					f.Class = "restart-" + f.Class
				}
				f.Msg = fmt.Sprintf("reopen (%s) after transaction %d failed: %s", spec.Reopen, ti, f.Msg)
				return run, f
			}
			db = ndb
			run.Rec.Mark("reopened")
			st.Reopens++
		}
	}
	run.End = run.Rec.Len()
	db.Stop()
	stopped = true
	st.Events = len(run.Rec.IOIndexes(run.Start, run.End))
	return run, nil
}

func snapshotIDs(m *dbh.MDB, table string) map[string]string {
	out := map[string]string{}
	for _, r := range m.Tables[table].Rows {
		out[idKey(r)] = r.Key()
	}
	return out
}

// noteWrites is a no-op placeholder for committed-path bookkeeping (loser bookkeeping is done by markLoser).
func noteWrites(run *Run, before map[string]string, after *dbh.MDB, s *dbh.Stmt, loser bool) {}

// noteLoser records the values a statement would have written when the engine aborted in the middle of it.
func noteLoser(run *Run, before map[string]string, work *dbh.MDB, s *dbh.Stmt) {
	tmp := work.Clone()
	tmp.Apply(s, dbh.EvalMode{})
	for _, r := range tmp.Tables[s.Table].Rows {
		if before[idKey(r)] != r.Key() {
			run.LoserVal[s.Table][r.Key()] = true
		}
	}
	after := snapshotIDs(tmp, s.Table)
	for id := range before {
		if _, ok := after[id]; !ok {
			run.LoserDel[s.Table][id] = true
		}
	}
}

// markLoser records every difference between the committed state and a non-committed transaction's work.
func markLoser(run *Run, committed, work *dbh.MDB) {
	for name, wt := range work.Tables {
		ct := snapshotIDs(committed, name)
		seen := map[string]bool{}
		for _, r := range wt.Rows {
			seen[idKey(r)] = true
			if ct[idKey(r)] != r.Key() {
				run.LoserVal[name][r.Key()] = true
			}
		}
		for id := range ct {
			if !seen[id] {
				run.LoserDel[name][id] = true
			}
		}
	}
}

// Allowed returns the indexes into States allowed at crash prefix k: D always, D+1 when the next
// commit was in progress (commit-call < k <= commit-return).
func (run *Run) Allowed(k int) (d int, inProgress bool) {
	d = 0
	for i := range run.RetAt {
		if run.RetAt[i] < k {
			d = i
		}
	}
	if d+1 < len(run.CallAt) && run.CallAt[d+1] < k {
		inProgress = true
	}
	return
}

// CrashPoints selects the event prefixes to explore: every I/O boundary of the history when there
// are at most max of them, else all boundaries adjacent to a marker plus an even sample.
func (run *Run) CrashPoints(max int) []int {
	io := run.Rec.IOIndexes(run.Start, run.End)
	var all []int
	for _, i := range io {
		all = append(all, i+1) // prefix that ends right after I/O event i
	}
	all = append([]int{run.Start + 1}, all...)
	if max <= 0 || len(all) <= max {
		return dedup(all)
	}
	keep := map[int]bool{all[0]: true, all[len(all)-1]: true}
	ev := run.Rec.Events
	for _, k := range all {
		// adjacent to a marker (commit-call/return, abort-return, checkpoint-return)?
		if k < len(ev) && ev[k].Kind == crashsim.EvMarker && !strings.HasPrefix(ev[k].Label, "stmt-return") {
			keep[k] = true
		}
		if k-2 >= 0 && ev[k-2].Kind == crashsim.EvMarker && !strings.HasPrefix(ev[k-2].Label, "stmt-return") {
			keep[k] = true
		}
	}
	step := float64(len(all)) / float64(max)
	for f := 0.0; int(f) < len(all) && len(keep) < max+max/2; f += step {
		keep[all[int(f)]] = true
	}
	var out []int
	for k := range keep {
		out = append(out, k)
	}
	sort.Ints(out)
	return out
}

func dedup(a []int) []int {
	sort.Ints(a)
	var out []int
	for i, x := range a {
		if i == 0 || x != a[i-1] {
			out = append(out, x)
		}
	}
	return out
}

// Tears lists the torn variants of the final write of prefix k.
func (run *Run) Tears(k int) []crashsim.Tear {
	if k-1 < 0 || k-1 >= len(run.Rec.Events) {
		return nil
	}
	e := run.Rec.Events[k-1]
	switch e.Kind {
	case crashsim.EvLog:
		n := len(e.Data)
		var out []crashsim.Tear
		for _, b := range []int{1, 19, 20, 21, n / 2, n - 1} {
			if b > 0 && b < n {
				out = append(out, crashsim.Tear{On: true, Bytes: b})
			}
		}
		return out
	case crashsim.EvPage:
		if run.H.NoTornPage {
			// the listed finding concerns a page that is overwritten in place; the first write of a page that extends the
			// file only leaves a short file, which the engine reads as an empty page and rebuilds from the log
			if run.Rec.ExtendsFile(k - 1) {
				return []crashsim.Tear{{On: true, Bytes: 600}, {On: true, Bytes: 16}}
			}
			return nil
		}
		return []crashsim.Tear{{On: true, Bytes: 512}, {On: true, Bytes: 2048}, {On: true, Bytes: 3584}}
	}
	return nil
}

// ---- recovery + oracle ------------------------------------------------------------------------------------

// Verdict of one crash point.
type Verdict struct {
	F     *vf.Failure
	Prop  string // "C01" | "C02" | "" (both / unclassified)
	K     int
	Tear  crashsim.Tear
	Loser bool
}

var imgCounter int

// RecoverAndCheck materialises the image for (k, tear), restarts the engine on it and applies the
// committed-set oracle plus the post-recovery DML smoke test. The reopened instance is returned
// stopped; files are removed.
func (run *Run) RecoverAndCheck(k int, tear crashsim.Tear, st *Stats) Verdict {
	img := run.Rec.Materialise(k, tear)
	return run.CheckImage(img, k, tear, st, nil)
}

// CheckImage is RecoverAndCheck on a given image; onOpen (optional) is called with the recorder
// installed for the recovery run itself (C20).
func (run *Run) CheckImage(img crashsim.Image, k int, tear crashsim.Tear, st *Stats, installRec func(name string) func()) Verdict {
	imgCounter++
	name := fmt.Sprintf("%s/img%d", run.Dir, imgCounter)
	v := Verdict{K: k, Tear: tear}
	if err := img.WriteFiles(name); err != nil {
		v.F = vf.Failf("harness-io", "%v", err)
		return v
	}
	defer func() {
		os.Remove(name + ".db")
		os.Remove(name + ".log")
	}()
	d, inProg := run.Allowed(k)
	allowed := []*dbh.MDB{run.States[d]}
	if inProg {
		allowed = append(allowed, run.States[d+1])
	}
	where := fmt.Sprintf("crash after event %d of %d%s (committed transactions before: %d, commit in progress: %v)", k, run.End, tearStr(tear), d, inProg)

	var db *dbh.DB
	f, hung := vf.WithTimeout(60*time.Second, func() *vf.Failure {
		var uninstall func()
		if installRec != nil {
			uninstall = installRec(name)
		}
		db = dbh.Open(name, run.H.KB, true)
		if uninstall != nil {
			uninstall()
		}
		return nil
	})
	if f != nil {
		crashsim.Uninstall()
		cls := "restart-" + f.Class
		if hung {
			cls = "restart-hang"
		}
		v.F = &vf.Failure{Class: cls, Msg: "restart failed at " + where + ": " + f.Msg, Extra: f.Extra}
		v.Prop = "C01"
		return v
	}
	stopped := false
	stop := func() {
		if !stopped {
			stopped = true
			func() { defer func() { recover() }(); db.Stop() }()
		}
	}
	defer stop()

	f, _ = vf.WithTimeout(60*time.Second, func() *vf.Failure {
		// (b) table contents
		chosen := -1
		for _, def := range run.H.Tables {
			rows, err := db.ScanAll(def.Name)
			if err != nil {
				v.Prop = "C01"
				return vf.Failf("post-recovery-scan", "%s: scan of %s failed: %v", where, def.Name, err)
			}
			ok := false
			for ai, a := range allowed {
				if chosen >= 0 && ai != chosen {
					continue
				}
				if dbh.MultisetDiff(rows, a.Tables[def.Name].Rows) == "" {
					// with two allowed states that agree on this table the choice stays open
					if len(allowed) == 2 && dbh.MultisetDiff(allowed[0].Tables[def.Name].Rows, allowed[1].Tables[def.Name].Rows) == "" {
						ok = true
						break
					}
					chosen, ok = ai, true
					break
				}
			}
			if !ok {
				cls, prop, msg := run.classify(def.Name, rows, allowed, chosen)
				v.Prop = prop
				return vf.Failf(cls, "%s: table %s: %s", where, def.Name, msg)
			}
		}
		base := allowed[0]
		if chosen >= 0 {
			base = allowed[chosen]
		}
		// (c) the database accepts new statements
		sm := base.Clone()
		if ff := smoke(db, sm, run.H, where); ff != nil {
			v.Prop = "C01"
			return ff
		}
		// (d) what those statements committed survives a further crash and restart
		if run.H.PostCrash {
			stop()
			var db2 *dbh.DB
			if ff := vf.Guard(func() *vf.Failure { db2 = dbh.Open(name, run.H.KB, true); return nil }); ff != nil {
				v.Prop = "C01"
				ff.Class = "restart-after-new-work-" + ff.Class
				ff.Msg = where + ": restart after the post-recovery statements failed: " + ff.Msg
				return ff
			}
			defer func() { func() { defer func() { recover() }(); db2.Stop() }() }()
			for _, def := range run.H.Tables {
				rows, err := db2.ScanAll(def.Name)
				if err != nil {
					v.Prop = "C01"
					return vf.Failf("post-recovery-work-lost", "%s: after the post-recovery statements, a crash and a restart: scan of %s failed: %v", where, def.Name, err)
				}
				if d := dbh.MultisetDiff(rows, sm.Tables[def.Name].Rows); d != "" {
					v.Prop = "C01"
					return vf.Failf("post-recovery-work-lost", "%s: statements committed after the recovery did not survive a further crash and restart: table %s: %s", where, def.Name, d)
				}
			}
		}
		return nil
	})
	v.F = f
	if f != nil && v.Prop == "" && (strings.HasPrefix(f.Class, "panic@") || f.Class == "hang") {
		v.Prop = "C01"
		f.Class = "post-recovery-" + f.Class
	}
	return v
}

func tearStr(t crashsim.Tear) string {
	if t.On {
		return fmt.Sprintf(" with the last write torn at byte %d", t.Bytes)
	}
	return ""
}

// classify decides which property a wrong table state violates, row id by row id.
func (run *Run) classify(table string, got []dbh.Row, allowed []*dbh.MDB, chosen int) (class, prop, msg string) {
	gotBy := map[string]dbh.Row{}
	dup := ""
	for _, r := range got {
		if _, ok := gotBy[idKey(r)]; ok {
			dup = r.String()
		}
		gotBy[idKey(r)] = r
	}
	// every version a row id ever had in a committed state
	committedVer := map[string]map[string]bool{}
	for _, s := range run.States {
		for _, r := range s.Tables[table].Rows {
			if committedVer[idKey(r)] == nil {
				committedVer[idKey(r)] = map[string]bool{}
			}
			committedVer[idKey(r)][r.Key()] = true
		}
	}
	exp := make([]map[string]dbh.Row, len(allowed))
	ids := map[string]bool{}
	for i, a := range allowed {
		exp[i] = map[string]dbh.Row{}
		for _, r := range a.Tables[table].Rows {
			exp[i][idKey(r)] = r
			ids[idKey(r)] = true
		}
	}
	for id := range gotBy {
		ids[id] = true
	}
	var c01, c02, mixed []string
	choice := map[int]int{}
	idList := make([]string, 0, len(ids))
	for id := range ids {
		idList = append(idList, id)
	}
	sort.Strings(idList)
	for _, id := range idList {
		g, gok := gotBy[id]
		matches := []int{}
		for i := range allowed {
			e, eok := exp[i][id]
			if gok == eok && (!gok || g.Key() == e.Key()) {
				matches = append(matches, i)
			}
		}
		if len(matches) > 0 {
			if len(matches) == 1 && len(allowed) == 2 {
				choice[matches[0]]++
			}
			continue
		}
		e0, e0ok := exp[0][id]
		switch {
		case gok && run.LoserVal[table][g.Key()]:
			c02 = append(c02, fmt.Sprintf("row %s holds %s written by a transaction that never committed", id, g))
		case gok && committedVer[id][g.Key()]:
			c01 = append(c01, fmt.Sprintf("row %s holds the older committed version %s (expected %s)", id, g, rowOrAbsent(e0, e0ok)))
		case gok:
			c02 = append(c02, fmt.Sprintf("row %s holds %s which no committed transaction wrote (expected %s)", id, g, rowOrAbsent(e0, e0ok)))
		case !gok && run.LoserDel[table][id]:
			c02 = append(c02, fmt.Sprintf("row %s is missing: deleted only by a transaction that never committed (expected %s)", id, rowOrAbsent(e0, e0ok)))
		default:
			c01 = append(c01, fmt.Sprintf("committed row %s is missing (expected %s)", id, rowOrAbsent(e0, e0ok)))
		}
	}
	if dup != "" {
		c02 = append(c02, "duplicate row id "+dup)
	}
	if len(c01) == 0 && len(c02) == 0 && len(choice) == 2 {
		mixed = append(mixed, fmt.Sprintf("the transaction whose commit was in progress is partly visible (%d rows new, %d rows old)", choice[1], choice[0]))
	}
	cut := func(s []string) string {
		if len(s) > 4 {
			return strings.Join(s[:4], "; ") + fmt.Sprintf("; …(+%d)", len(s)-4)
		}
		return strings.Join(s, "; ")
	}
	switch {
	case len(c01) > 0:
		return "lost-committed", "C01", cut(append(c01, c02...))
	case len(c02) > 0:
		return "loser-visible", "C02", cut(c02)
	case len(mixed) > 0:
		return "commit-not-atomic", "C02", mixed[0]
	}
	return "table-differs", "", "table differs from every allowed state: " + dbh.MultisetDiff(got, allowed[0].Tables[table].Rows)
}

func rowOrAbsent(r dbh.Row, ok bool) string {
	if !ok {
		return "absent"
	}
	return r.String()
}

// smoke: the recovered database accepts inserts, updates, index and scan reads and deletes; with
// h.Growth also enough inserts to allocate new heap pages and index nodes.
func smoke(db *dbh.DB, m *dbh.MDB, h *History, where string) *vf.Failure {
	for ti := range h.Tables {
		def := &h.Tables[ti]
		mk := func(id int32, tag string) dbh.Row {
			r := make(dbh.Row, len(def.Cols))
			for i, c := range def.Cols {
				switch {
				case i == 0:
					r[i] = dbh.IntV(id)
				case c.T == "i":
					r[i] = dbh.IntV(id + 7)
				case c.T == "f":
					r[i] = dbh.FloatV(float32(id) / 2)
				default:
					r[i] = dbh.StrV(tag)
				}
			}
			return r
		}
		names := make([]string, len(def.Cols))
		for i, c := range def.Cols {
			names[i] = c.Name
		}
		step := func(s *dbh.Stmt) *vf.Failure {
			if _, err := db.Auto(s); err != nil {
				return vf.Failf("post-recovery-dml", "%s: %s failed after recovery: %v", where, s, err)
			}
			m.Apply(s, dbh.EvalMode{})
			return nil
		}
		id := int32(900001)
		if f := step(&dbh.Stmt{Kind: "insert", Table: def.Name, Cols: names, Rows: []dbh.Row{mk(id, "fresh")}}); f != nil {
			return f
		}
		var set []dbh.SetItem
		if len(def.Cols) > 1 {
			nv := mk(id, "fresh-updated")[len(def.Cols)-1]
			if nv.T == 'i' {
				nv = dbh.IntV(nv.I + 1000)
			}
			set = []dbh.SetItem{{Col: def.Cols[len(def.Cols)-1].Name, V: nv}}
			if f := step(&dbh.Stmt{Kind: "update", Table: def.Name, Set: set, Where: dbh.Leaf(def.Cols[0].Name, "=", dbh.IntV(id))}); f != nil {
				return f
			}
		}
		for _, q := range []*dbh.Stmt{
			{Kind: "select", Table: def.Name, Where: dbh.Leaf(def.Cols[0].Name, "=", dbh.IntV(id))},
			{Kind: "select", Table: def.Name, Where: dbh.Or(dbh.Leaf(def.Cols[0].Name, "=", dbh.IntV(id)), dbh.Leaf(def.Cols[0].Name, "=", dbh.IntV(-77)))},
		} {
			rows, err := db.Auto(q)
			if err != nil {
				return vf.Failf("post-recovery-dml", "%s: %s failed after recovery: %v", where, q, err)
			}
			if d := dbh.MultisetDiff(rows, m.Select(q, dbh.EvalMode{})); d != "" {
				return vf.Failf("post-recovery-read", "%s: %s after recovery: %s", where, q, d)
			}
		}
		if h.Growth {
			for g := 0; g < 24; g++ {
				rows := []dbh.Row{mk(910000+int32(g), strings.Repeat("g", 700)+fmt.Sprint(g))}
				if f := step(&dbh.Stmt{Kind: "insert", Table: def.Name, Cols: names, Rows: rows}); f != nil {
					return f
				}
			}
		}
		if f := step(&dbh.Stmt{Kind: "delete", Table: def.Name, Where: dbh.Leaf(def.Cols[0].Name, "=", dbh.IntV(id))}); f != nil {
			return f
		}
		rows, err := db.ScanAll(def.Name)
		if err != nil {
			return vf.Failf("post-recovery-scan", "%s: scan after new statements failed: %v", where, err)
		}
		if d := dbh.MultisetDiff(rows, m.Tables[def.Name].Rows); d != "" {
			return vf.Failf("post-recovery-state", "%s: table %s after new statements: %s", where, def.Name, d)
		}
		// every row is also reachable through the index on the id column (when it has one)
		if def.Cols[0].Idx != dbh.IdxNone && def.Cols[0].Idx != "" {
			q := &dbh.Stmt{Kind: "select", Table: def.Name, Where: dbh.And(dbh.Leaf(def.Cols[0].Name, ">=", dbh.IntV(0)), dbh.Leaf(def.Cols[0].Name, "<=", dbh.IntV(2000000)))}
			rows, err := db.Auto(q)
			if err != nil {
				return vf.Failf("post-recovery-dml", "%s: %s failed after recovery: %v", where, q, err)
			}
			if d := dbh.MultisetDiff(rows, m.Select(q, dbh.EvalMode{})); d != "" {
				return vf.Failf("post-recovery-index-read", "%s: %s after recovery: %s", where, q, d)
			}
		}
	}
	return nil
}

// Cleanup removes the run's scratch directory.
func (run *Run) Cleanup() {
	if run != nil && run.Dir != "" {
		os.RemoveAll(run.Dir)
	}
}

// ---- driving all crash points of a history -----------------------------------------------------------

// Explore runs the history and checks every selected crash point; it returns the first failure of
// the requested property ("C01", "C02" or "" for any). Failures of the other property are counted.
func Explore(h *History, prop string, st *Stats) (*vf.Failure, *Verdict) {
	if st.Classes == nil {
		st.Classes = map[string]bool{}
	}
	run, f := Execute(h, st)
	defer run.Cleanup()
	if f != nil {
		return f, nil
	}
	points := run.CrashPoints(h.MaxCrashPoints)
	if h.OnlyK > 0 {
		points = []int{h.OnlyK}
	}
	if len(run.Rec.Trace(run.Start, run.End)) < 200 {
		st.Trace = run.Rec.Trace(run.Start, run.End)
	}
	for _, k := range points {
		tears := []crashsim.Tear{{}}
		if h.OnlyK > 0 {
			tears = []crashsim.Tear{h.OnlyT}
		} else if h.Tear {
			tears = append(tears, run.Tears(k)...)
		}
		for _, tr := range tears {
			v := run.RecoverAndCheck(k, tr, st)
			st.CrashPoints++
			d, _ := run.Allowed(k)
			if d > 0 || len(run.H.Setup) > 0 {
				st.NontrivPoints++
			}
			if run.hasLoserAt(k) {
				st.LoserPoints++
			}
			if tr.On {
				st.TornPoints++
			}
			if v.F != nil {
				if prop == "" || v.Prop == prop || v.Prop == "" {
					vv := v
					return v.F, &vv
				}
				st.Classes["other-property-failure:"+v.Prop+":"+v.F.Class] = true
			}
		}
	}
	return nil, nil
}

// hasLoserAt: some transaction that is not committed at k began before k.
func (run *Run) hasLoserAt(k int) bool {
	for _, t := range run.Txns {
		if t.begin < k && !t.committed {
			return true
		}
		if t.begin < k && t.committed && t.call >= k {
			return true
		}
	}
	return false
}

// ---- C20: crashes inside recovery, repeated recovery ----------------------------------------------------

// RecoveryTrace starts the engine on img under a fresh recorder, stops it right after the restart
// returned, and returns the recorder holding recovery's own I/O (page writes, log truncation, log writes).
func (run *Run) RecoveryTrace(img crashsim.Image) (*crashsim.Recorder, *vf.Failure) {
	imgCounter++
	name := fmt.Sprintf("%s/rec%d", run.Dir, imgCounter)
	if err := img.WriteFiles(name); err != nil {
		return nil, vf.Failf("harness-io", "%v", err)
	}
	defer func() {
		os.Remove(name + ".db")
		os.Remove(name + ".log")
	}()
	var rec *crashsim.Recorder
	f, hung := vf.WithTimeout(60*time.Second, func() *vf.Failure {
		rec = crashsim.Install(name)
		db := dbh.Open(name, run.H.KB, true)
		crashsim.Uninstall()
		db.Stop()
		return nil
	})
	crashsim.Uninstall()
	if f != nil {
		if hung {
			f.Class = "restart-hang"
		} else {
			f.Class = "restart-" + f.Class
		}
		return nil, f
	}
	return rec, nil
}

// ExploreRecoveryCrashes: for crash point (k,tear) of the history, crash the recovery run itself at
// every prefix j of its own trace (optionally torn), recover again and apply k's oracle; depth > 1
// nests once more on a sample. repeat > 0 additionally checks that r plain repetitions change nothing.
func (run *Run) ExploreRecoveryCrashes(k int, tear crashsim.Tear, depth int, tearInner bool, st *Stats) *Verdict {
	img := run.Rec.Materialise(k, tear)
	return run.nested(img, k, tear, depth, tearInner, st, fmt.Sprintf("k=%d", k))
}

func (run *Run) nested(img crashsim.Image, k int, tear crashsim.Tear, depth int, tearInner bool, st *Stats, path string) *Verdict {
	rec, f := run.RecoveryTrace(img)
	if f != nil {
		f.Msg = "recovery at " + path + ": " + f.Msg
		return &Verdict{F: f, Prop: "C01", K: k, Tear: tear}
	}
	n := rec.Len()
	io := rec.IOIndexes(0, n)
	for _, i := range io {
		j := i + 1
		tears := []crashsim.Tear{{}}
		if tearInner {
			e := rec.Events[i]
			if e.Kind == crashsim.EvLog && len(e.Data) > 1 {
				tears = append(tears, crashsim.Tear{On: true, Bytes: len(e.Data) / 2})
			}
		}
		for _, tr := range tears {
			img2 := rec.Materialise(j, tr)
			v := run.CheckImage(img2, k, tear, st, nil)
			st.CrashPoints++
			if j < len(io) {
				st.NontrivPoints++
			}
			if v.F != nil {
				v.F.Msg = fmt.Sprintf("second crash after event %d of %d of the recovery run (%s; recovery trace %v)%s: %s", j, n, path, rec.Trace(0, n), tearStr(tr), v.F.Msg)
				return &v
			}
			if depth > 1 && (j%3 == 1) {
				if vv := run.nested(img2, k, tear, depth-1, false, st, fmt.Sprintf("%s/j=%d", path, j)); vv != nil {
					return vv
				}
			}
		}
	}
	return nil
}

// RepeatRecovery recovers the image r times (restart, stop without new work) and then applies k's oracle.
func (run *Run) RepeatRecovery(k int, tear crashsim.Tear, r int, st *Stats) *Verdict {
	img := run.Rec.Materialise(k, tear)
	imgCounter++
	name := fmt.Sprintf("%s/rep%d", run.Dir, imgCounter)
	if err := img.WriteFiles(name); err != nil {
		return &Verdict{F: vf.Failf("harness-io", "%v", err)}
	}
	defer func() {
		os.Remove(name + ".db")
		os.Remove(name + ".log")
	}()
	for i := 0; i < r; i++ {
		f, hung := vf.WithTimeout(60*time.Second, func() *vf.Failure {
			db := dbh.Open(name, run.H.KB, true)
			db.Stop()
			return nil
		})
		if f != nil {
			if hung {
				f.Class = "restart-hang"
			} else {
				f.Class = "restart-" + f.Class
			}
			f.Msg = fmt.Sprintf("recovery repetition %d of %d at k=%d: %s", i+1, r, k, f.Msg)
			return &Verdict{F: f, Prop: "C01", K: k, Tear: tear}
		}
	}
	db, _ := os.ReadFile(name + ".db")
	lg, _ := os.ReadFile(name + ".log")
	v := run.CheckImage(crashsim.Image{DB: db, Log: lg}, k, tear, st, nil)
	st.CrashPoints++
	if v.F != nil {
		v.F.Msg = fmt.Sprintf("after %d repetitions of recovery: %s", r, v.F.Msg)
		return &v
	}
	return nil
}
