package crasheng

import (
	"encoding/json"
	"fmt"
	"os"
	"testing"

	"verifharness/crashsim"
	"verifharness/vf"
)

// TestDebugCase prints the I/O trace and the parsed log of a replay file ($VERIF_DEBUG_CASE).
func TestDebugCase(t *testing.T) {
	fn := os.Getenv("VERIF_DEBUG_CASE")
	if fn == "" {
		t.Skip()
	}
	b, _ := os.ReadFile(fn)
	var cf vf.CorpusFile
	json.Unmarshal(b, &cf)
	var h History
	json.Unmarshal(cf.Case, &h)
	st := &Stats{Classes: map[string]bool{}}
	run, f := Execute(&h, st)
	defer run.Cleanup()
	if f != nil {
		if d := os.Getenv("VERIF_DEBUG_DUMP"); d != "" {
			b1, _ := os.ReadFile(run.Name + ".db")
			b2, _ := os.ReadFile(run.Name + ".log")
			os.WriteFile(d+".db", b1, 0o644)
			os.WriteFile(d+".log", b2, 0o644)
		}
		t.Fatal(f)
	}
	for i, e := range run.Rec.Events {
		s := e.String()
		if e.Kind == crashsim.EvLog {
			recs, rest, bad := crashsim.ParseLog(e.Data)
			s += fmt.Sprintf(" rest=%d %s", rest, bad)
			for _, r := range recs {
				s += "\n        " + r.String()
			}
		}
		if e.Kind == crashsim.EvPage && len(e.Data) >= 24 {
			s += fmt.Sprintf(" lsn=%d", int32(uint32(e.Data[4])|uint32(e.Data[5])<<8|uint32(e.Data[6])<<16|uint32(e.Data[7])<<24))
		}
		fmt.Printf("%3d %s\n", i, s)
	}
}

// TestDebugRecover runs recovery at the failing crash point of $VERIF_DEBUG_CASE and dumps heap pages.
func TestDebugRecover(t *testing.T) {
	fn := os.Getenv("VERIF_DEBUG_CASE")
	if fn == "" {
		t.Skip()
	}
	b, _ := os.ReadFile(fn)
	var cf vf.CorpusFile
	json.Unmarshal(b, &cf)
	var h History
	json.Unmarshal(cf.Case, &h)
	var ex struct {
		K    int           `json:"k"`
		Tear crashsim.Tear `json:"tear"`
	}
	eb, _ := json.Marshal(cf.Failure.Extra)
	json.Unmarshal(eb, &ex)
	if h.OnlyK > 0 {
		ex.K, ex.Tear = h.OnlyK, h.OnlyT
	}
	st := &Stats{Classes: map[string]bool{}}
	run, f := Execute(&h, st)
	defer run.Cleanup()
	if f != nil {
		t.Fatal(f)
	}
	img := run.Rec.Materialise(ex.K, ex.Tear)
	fmt.Printf("k=%d db=%d bytes (%d pages) log=%d bytes\n", ex.K, len(img.DB), len(img.DB)/4096, len(img.Log))
	if d := os.Getenv("VERIF_DEBUG_DUMP"); d != "" {
		img.WriteFiles(d)
	}
	recs, rest, bad := crashsim.ParseLog(img.Log)
	for _, r := range recs {
		fmt.Println("   ", r)
	}
	fmt.Println("rest", rest, bad)
	v := run.RecoverAndCheck(ex.K, ex.Tear, st)
	if v.F != nil {
		fmt.Println("FAIL", v.F.Class, v.F.Msg)
		fmt.Println(v.F.Extra)
	}
}
