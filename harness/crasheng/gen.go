package crasheng

import (
	"fmt"
	"strings"

	"pgregory.net/rapid"

	"verifharness/dbh"
)

// Profile steers the history generator (C01: durability; C02: losers on the same pages and slots).
type Profile struct {
	AbortPct   int  // share of transactions that end with an explicit abort
	OpenTail   bool // leave the last transaction(s) in flight
	MaxTxns    int
	SameRows   bool // concentrate work on few rows / slots (reuse after abort)
	Checkpoint int  // percentage of transactions followed by a forced checkpoint
	Reopen     int  // percentage of transactions followed by a restart (crash or clean) inside the history
	OpenMid    int  // percentage of (non-final) transactions that are left in flight while later transactions run and commit; at most two per history
	Huge       int  // percentage of histories that contain one transaction writing more log (about 600 KB) than the log buffer holds (516 KB) while the pool is large enough not to evict: the buffer-full path of the log manager
	Churn      int  // percentage of histories whose setup inserts 400 rows and deletes 390 of them again (index nodes run empty and are deallocated), followed by a restart after the first transaction and by page-growing inserts (recycled page ids)
	PostCrash  int  // percentage of histories whose crash images are, after recovery and new statements, crashed and recovered once more
	Bulk       int  // percentage of statements that touch many pages at once (8-24 long rows inserted / 8-24 rows enlarged / up to 24 rows deleted), so that one open transaction dirties more pages than the pool holds
}

var T1 = dbh.TableDef{Name: "t", Cols: []dbh.Col{{Name: "id", T: "i", Idx: dbh.IdxSkip}, {Name: "v", T: "s", Idx: dbh.IdxNone}, {Name: "n", T: "i", Idx: dbh.IdxSkip}}}
var T2 = dbh.TableDef{Name: "s", Cols: []dbh.Col{{Name: "id", T: "i", Idx: dbh.IdxNone}, {Name: "n", T: "i", Idx: dbh.IdxNone}}}

type genState struct {
	nextID  int32
	nextVal int32
	live    map[string][]int32 // table -> committed live ids
	bulk    int
}

func (g *genState) val() int32 { g.nextVal++; return g.nextVal }

func (g *genState) str(t *rapid.T, l string) string {
	n := rapid.SampledFrom([]int{8, 8, 20, 20, 60, 300, 900, 1200, 2100, 3400}).Draw(t, l) // 2100/3400: one or two rows fill a page; an UPDATE record (both images) exceeds a page
	s := fmt.Sprintf("w%d-", g.val())
	if len(s) < n {
		s += strings.Repeat("x", n-len(s))
	}
	return s
}

func pick(t *rapid.T, ids []int32, l string) int32 {
	return ids[rapid.IntRange(0, len(ids)-1).Draw(t, l)]
}

// stmtIDs returns the id interval a generated statement addresses (its inserted ids, or the id bounds of its predicate).
func stmtIDs(s *dbh.Stmt) (lo, hi int32) {
	if s.Kind == "insert" {
		lo, hi = s.Rows[0][0].I, s.Rows[0][0].I
		for _, r := range s.Rows {
			if r[0].I < lo {
				lo = r[0].I
			}
			if r[0].I > hi {
				hi = r[0].I
			}
		}
		return
	}
	w := s.Where
	if w.IsLeaf() {
		return w.V.I, w.V.I
	}
	return w.L.V.I, w.R.V.I
}

// genStmt draws one statement against the transaction-local view (ids).
func (g *genState) genStmt(t *rapid.T, def *dbh.TableDef, ids *[]int32) dbh.Stmt {
	names := make([]string, len(def.Cols))
	for i, c := range def.Cols {
		names[i] = c.Name
	}
	hasV := len(def.Cols) == 3
	kind := rapid.IntRange(0, 11).Draw(t, "kind")
	if len(*ids) == 0 {
		kind = 0
	}
	idc := def.Cols[0].Name
	if g.bulk > 0 && rapid.IntRange(0, 99).Draw(t, "bulkdie") < g.bulk {
		n := rapid.IntRange(8, 24).Draw(t, "bulkn")
		if len(*ids) >= 8 && rapid.IntRange(0, 3).Draw(t, "bulkdel") == 0 {
			// delete up to n rows in one statement: at commit their removal is applied page by page, so that (in a small pool) the
			// log is flushed by evictions between the APPLYDELETE records and the COMMIT record
			a := pick(t, *ids, "bd")
			b := a + int32(n)
			var keep []int32
			for _, x := range *ids {
				if x < a || x > b {
					keep = append(keep, x)
				}
			}
			*ids = keep
			return dbh.Stmt{Kind: "delete", Table: def.Name, Where: dbh.And(dbh.Leaf(idc, ">=", dbh.IntV(a)), dbh.Leaf(idc, "<=", dbh.IntV(b)))}
		}
		if hasV && len(*ids) >= 5 && rapid.Bool().Draw(t, "bulkupd") {
			// enlarge up to n rows in one statement: relocations allocate new pages while earlier pages of the statement are still dirty
			a := pick(t, *ids, "ba")
			return dbh.Stmt{Kind: "update", Table: def.Name, Set: []dbh.SetItem{{Col: "v", V: dbh.StrV(fmt.Sprintf("w%d-", g.val()) + strings.Repeat("y", rapid.SampledFrom([]int{300, 700, 1100}).Draw(t, "bulklen")))}},
				Where: dbh.And(dbh.Leaf(idc, ">=", dbh.IntV(a)), dbh.Leaf(idc, "<=", dbh.IntV(a+int32(n))))}
		}
		s := dbh.Stmt{Kind: "insert", Table: def.Name, Cols: names}
		l := rapid.SampledFrom([]int{300, 700, 1100}).Draw(t, "bulklen")
		for i := 0; i < n; i++ {
			g.nextID++
			r := dbh.Row{dbh.IntV(g.nextID)}
			if hasV {
				r = append(r, dbh.StrV(fmt.Sprintf("w%d-", g.val())+strings.Repeat("z", l)))
			}
			r = append(r, dbh.IntV(g.val()))
			s.Rows = append(s.Rows, r)
			*ids = append(*ids, g.nextID)
		}
		return s
	}
	switch {
	case kind <= 3: // insert 1-3 rows
		n := rapid.IntRange(1, 3).Draw(t, "nrows")
		s := dbh.Stmt{Kind: "insert", Table: def.Name, Cols: names}
		for i := 0; i < n; i++ {
			g.nextID++
			r := dbh.Row{dbh.IntV(g.nextID)}
			if hasV {
				r = append(r, dbh.StrV(g.str(t, "vlen")))
			}
			r = append(r, dbh.IntV(g.val()))
			s.Rows = append(s.Rows, r)
			*ids = append(*ids, g.nextID)
		}
		return s
	case kind <= 5: // in-place update of n
		return dbh.Stmt{Kind: "update", Table: def.Name, Set: []dbh.SetItem{{Col: "n", V: dbh.IntV(g.val())}}, Where: dbh.Leaf(idc, "=", dbh.IntV(pick(t, *ids, "uid")))}
	case kind <= 7 && hasV: // update of v: same size, growing (relocation) or shrinking
		return dbh.Stmt{Kind: "update", Table: def.Name, Set: []dbh.SetItem{{Col: "v", V: dbh.StrV(g.str(t, "vlen"))}}, Where: dbh.Leaf(idc, "=", dbh.IntV(pick(t, *ids, "uid")))}
	case kind == 8: // multi-row update
		a := pick(t, *ids, "ra")
		b := a + int32(rapid.IntRange(0, 4).Draw(t, "span"))
		return dbh.Stmt{Kind: "update", Table: def.Name, Set: []dbh.SetItem{{Col: "n", V: dbh.IntV(g.val())}}, Where: dbh.And(dbh.Leaf(idc, ">=", dbh.IntV(a)), dbh.Leaf(idc, "<=", dbh.IntV(b)))}
	case kind == 9: // multi-row delete
		a := pick(t, *ids, "da")
		b := a + int32(rapid.IntRange(0, 2).Draw(t, "span"))
		var keep []int32
		for _, x := range *ids {
			if x < a || x > b {
				keep = append(keep, x)
			}
		}
		*ids = keep
		return dbh.Stmt{Kind: "delete", Table: def.Name, Where: dbh.And(dbh.Leaf(idc, ">=", dbh.IntV(a)), dbh.Leaf(idc, "<=", dbh.IntV(b)))}
	default: // delete one row
		x := pick(t, *ids, "did")
		var keep []int32
		for _, y := range *ids {
			if y != x {
				keep = append(keep, y)
			}
		}
		*ids = keep
		return dbh.Stmt{Kind: "delete", Table: def.Name, Where: dbh.Leaf(idc, "=", dbh.IntV(x))}
	}
}

// GenHistory draws a complete history.
func GenHistory(t *rapid.T, p Profile) *History {
	h := &History{Tables: []dbh.TableDef{T1}}
	if rapid.IntRange(0, 2).Draw(t, "two") == 0 {
		h.Tables = append(h.Tables, T2)
	}
	// frames = KB/4; 2 skip-list indexes keep 6 pages pinned for good
	h.KB = rapid.SampledFrom([]int{48, 64, 64, 96, 400}).Draw(t, "kb")
	h.Tear = rapid.IntRange(0, 3).Draw(t, "tear") == 0
	h.Growth = rapid.IntRange(0, 2).Draw(t, "growth") == 0
	h.MaxCrashPoints = 60
	h.PostCrash = p.PostCrash > 0 && rapid.IntRange(0, 99).Draw(t, "postcrash") < p.PostCrash
	g := &genState{live: map[string][]int32{}, bulk: p.Bulk}
	churn := p.Churn > 0 && rapid.IntRange(0, 99).Draw(t, "churn") < p.Churn
	if churn {
		def := &h.Tables[0]
		names := []string{"id", "v", "n"}
		for b := 0; b < 400; b += 40 {
			st := dbh.Stmt{Kind: "insert", Table: def.Name, Cols: names}
			for i := 0; i < 40; i++ {
				g.nextID++
				st.Rows = append(st.Rows, dbh.Row{dbh.IntV(g.nextID), dbh.StrV(fmt.Sprintf("w%d-", g.val())), dbh.IntV(g.val())})
				if g.nextID <= 10 {
					g.live[def.Name] = append(g.live[def.Name], g.nextID)
				}
			}
			h.Setup = append(h.Setup, st)
		}
		h.Setup = append(h.Setup, dbh.Stmt{Kind: "delete", Table: def.Name, Where: dbh.And(dbh.Leaf("id", ">=", dbh.IntV(11)), dbh.Leaf("id", "<=", dbh.IntV(400)))})
		g.bulk = 35
		h.KB = 400
	}
	nsetup := rapid.SampledFrom([]int{0, 2, 5, 12, 30}).Draw(t, "nsetup")
	if churn {
		nsetup = 0
	}
	if p.SameRows && nsetup > 5 {
		nsetup = 5
	}
	for i := 0; i < nsetup; i++ {
		def := &h.Tables[rapid.IntRange(0, len(h.Tables)-1).Draw(t, "stbl")]
		ids := g.live[def.Name]
		tmp := append([]int32{}, ids...)
		empty := []int32{}
		s := g.genStmt(t, def, &empty) // forces an insert
		h.Setup = append(h.Setup, s)
		for _, r := range s.Rows {
			tmp = append(tmp, r[0].I)
		}
		g.live[def.Name] = tmp
	}
	ntx := rapid.IntRange(1, p.MaxTxns).Draw(t, "ntxns")
	nOpenMid := 0
	hugeAt := -1
	if p.Huge > 0 && rapid.IntRange(0, 99).Draw(t, "huge") < p.Huge {
		hugeAt = rapid.IntRange(0, ntx-1).Draw(t, "hugeat")
	}
	for i := 0; i < ntx; i++ {
		spec := TxnSpec{End: "commit"}
		if rapid.IntRange(0, 99).Draw(t, "abortdie") < p.AbortPct {
			spec.End = "abort"
		}
		if p.OpenTail && i == ntx-1 && rapid.Bool().Draw(t, "open") {
			spec.End = "open"
		}
		openMid := false
		if p.OpenMid > 0 && i < ntx-1 && nOpenMid < 2 && rapid.IntRange(0, 99).Draw(t, "openmid") < p.OpenMid {
			spec.End, openMid = "open", true
			nOpenMid++
		}
		local := map[string][]int32{}
		for k, v := range g.live {
			local[k] = append([]int32{}, v...)
		}
		ns := rapid.IntRange(1, 4).Draw(t, "nstmts")
		for j := 0; j < ns; j++ {
			def := &h.Tables[rapid.IntRange(0, len(h.Tables)-1).Draw(t, "tbl")]
			ids := local[def.Name]
			if p.SameRows && len(ids) > 3 {
				ids = ids[len(ids)-3:]
			}
			s := g.genStmt(t, def, &ids)
			if p.SameRows {
				// keep the untouched older ids
				old := local[def.Name]
				if len(old) > 3 {
					ids = append(append([]int32{}, old[:len(old)-3]...), ids...)
				}
			}
			local[def.Name] = ids
			spec.Stmts = append(spec.Stmts, s)
		}
		if spec.End == "commit" {
			g.live = local
		}
		if openMid {
			// the rows this transaction addressed stay locked until the next crash restart: later transactions are
			// steered away from them (statements that still reach them through a range are aborted by the engine,
			// which is the conflict-abort case)
			for si := range spec.Stmts {
				lo, hi := stmtIDs(&spec.Stmts[si])
				tbl := spec.Stmts[si].Table
				var keep []int32
				for _, x := range g.live[tbl] {
					if x < lo || x > hi {
						keep = append(keep, x)
					}
				}
				g.live[tbl] = keep
			}
		}
		if i == hugeAt {
			// 5 statements x 36 rows x 3400 bytes in table t: ~620 KB of INSERT records without a commit in between
			def := &h.Tables[0]
			names := []string{"id", "v", "n"}
			for b := 0; b < 5; b++ {
				st := dbh.Stmt{Kind: "insert", Table: def.Name, Cols: names}
				for r := 0; r < 36; r++ {
					g.nextID++
					st.Rows = append(st.Rows, dbh.Row{dbh.IntV(g.nextID), dbh.StrV(fmt.Sprintf("w%d-", g.val()) + strings.Repeat("h", 3400)), dbh.IntV(g.val())})
					local[def.Name] = append(local[def.Name], g.nextID)
				}
				spec.Stmts = append(spec.Stmts, st)
			}
			if spec.End == "commit" {
				g.live = local
			}
			h.KB = 1600
		}
		spec.Checkpoint = rapid.IntRange(0, 99).Draw(t, "cp") < p.Checkpoint
		if p.Reopen > 0 && spec.End != "open" && rapid.IntRange(0, 99).Draw(t, "reopen") < p.Reopen {
			spec.Reopen = rapid.SampledFrom([]string{"crash", "crash", "clean"}).Draw(t, "reopenkind")
			if nOpenMid > 0 {
				spec.Reopen = "crash" // a clean shutdown waits for open transactions
			}
		}
		if churn && i == 0 && spec.End != "open" {
			spec.Reopen = rapid.SampledFrom([]string{"crash", "clean"}).Draw(t, "churnreopen")
		}
		h.Txns = append(h.Txns, spec)
	}
	return h
}
