package crasheng

import (
	"encoding/binary"
	"fmt"

	"verifharness/crashsim"
	"verifharness/vf"
)

type WALStats struct {
	HeapPageWrites   int // page writes of user heap pages checked by W1
	OrderingMattered int // ... whose LSN is newer than the log high-water mark before the previous log write
	WriterCommits    int // commit returns of writing transactions checked by W2
	LogWrites        int // log writes checked by W3
	Records          int
}

// CommitPoint: a commit-return marker of a writing transaction.
type CommitPoint struct {
	EventIdx int
	TxnID    int32
}

// CheckWAL evaluates the write-ahead invariants over a recorded trace:
// W1 no user heap page is written carrying an LSN that is not yet in a log write before it, nor a link to a following page
//
//	whose creation record is not yet in a log write before it;
//
// W2 at every commit return of a writer its COMMIT record is in the log written so far (since the last truncation);
// W3 after every log write the log is a sequence of whole, known records with increasing LSNs and per-transaction prevLSN chains.
func CheckWAL(events []crashsim.Event, baseLog []byte, commits []CommitPoint, st *WALStats) *vf.Failure {
	// pass 1: classify pages from NEWTABLEPAGE records of the whole trace (a page's class may become durable after its first write)
	prev := map[int32]int32{}
	var all []byte
	all = append(all, baseLog...)
	for _, e := range events {
		if e.Kind == crashsim.EvLog {
			all = append(all, e.Data...)
		}
	}
	recsAll, _, _ := crashsim.ParseLog(all)
	createdAt := map[int32]int32{} // heap page -> LSN of the NEWTABLEPAGE record that describes its creation (and its predecessor's link to it)
	for _, r := range recsAll {
		if r.Type == crashsim.RecNewTablePage {
			prev[r.PageID] = r.PrevPg
			if _, seen := createdAt[r.PageID]; !seen {
				createdAt[r.PageID] = r.LSN
			}
		}
	}
	isUserHeap := func(id int32) bool {
		if _, ok := prev[id]; !ok {
			return false // never named by a NEWTABLEPAGE record: catalog root, index or temporary page
		}
		root := id
		for i := 0; i < 100000; i++ {
			p, ok := prev[root]
			if !ok || p < 0 {
				break
			}
			root = p
		}
		return root != 0 && root != 1 // heaps rooted at pages 0/1 are the catalog's own tables
	}
	// pass 2
	durable := append([]byte{}, baseLog...)
	hwm := int32(-1)
	prevHwm := int32(-1) // high-water mark before the most recent log write
	if rs, _, _ := crashsim.ParseLog(durable); len(rs) > 0 {
		for _, r := range rs {
			if r.LSN > hwm {
				hwm = r.LSN
			}
		}
	}
	commitAt := map[int][]int32{}
	for _, c := range commits {
		commitAt[c.EventIdx] = append(commitAt[c.EventIdx], c.TxnID)
	}
	for i, e := range events {
		switch e.Kind {
		case crashsim.EvGC:
			durable = durable[:0]
		case crashsim.EvLog:
			st.LogWrites++
			durable = append(durable, e.Data...)
			recs, rest, bad := crashsim.ParseLog(durable)
			if bad != "" {
				return vf.Failf("w3-malformed-log", "after log write at event %d (%d bytes): %s", i, len(e.Data), bad)
			}
			if rest != 0 {
				return vf.Failf("w3-partial-record", "after log write at event %d the log ends with %d bytes that are not a whole record", i, rest)
			}
			last := int32(-1)
			lastOf := map[int32]int32{}
			for _, r := range recs {
				if r.LSN < 0 {
					continue // DEALLOCATE/REUSE page records carry no LSN
				}
				if r.LSN <= last {
					return vf.Failf("w3-lsn-order", "after log write at event %d: record %s follows LSN %d", i, r, last)
				}
				last = r.LSN
				if p, seen := lastOf[r.Txn]; seen {
					if r.PrevLSN != p && r.Type != crashsim.RecBegin {
						return vf.Failf("w3-prevlsn-chain", "after log write at event %d: record %s does not point to the previous record (LSN %d) of its transaction", i, r, p)
					}
				}
				lastOf[r.Txn] = r.LSN
			}
			st.Records = len(recs)
			prevHwm = hwm
			for _, r := range recs {
				if r.LSN > hwm {
					hwm = r.LSN
				}
			}
		case crashsim.EvPage:
			if len(e.Data) < 8 || !isUserHeap(e.PageID) {
				continue
			}
			st.HeapPageWrites++
			lsn := int32(binary.LittleEndian.Uint32(e.Data[4:8]))
			if lsn > hwm {
				return vf.Failf("w1-page-before-log", "event %d writes user heap page %d carrying LSN %d, but the newest LSN in any log write so far is %d", i, e.PageID, lsn, hwm)
			}
			if lsn > prevHwm {
				st.OrderingMattered++
			}
			// the link to a following page is a change too: it is described by that page's NEWTABLEPAGE record (the link is set
			// without touching this page's LSN)
			if len(e.Data) >= 16 {
				next := int32(binary.LittleEndian.Uint32(e.Data[12:16]))
				if rl, ok := createdAt[next]; ok && next > 0 && prev[next] == e.PageID && rl > hwm {
					return vf.Failf("w1-link-before-log", "event %d writes user heap page %d with a link to page %d, whose creation record (LSN %d) is not in any log write so far (newest LSN %d)", i, e.PageID, next, rl, hwm)
				}
			}
		case crashsim.EvMarker:
			for _, txn := range commitAt[i] {
				st.WriterCommits++
				recs, _, _ := crashsim.ParseLog(durable)
				ok := false
				for _, r := range recs {
					if r.Type == crashsim.RecCommit && r.Txn == txn {
						ok = true
					}
				}
				if !ok {
					return vf.Failf("w2-commit-not-durable", "commit of writing transaction (engine txn id %d) returned at event %d (%s) but no COMMIT record of it is in the log written so far", txn, i, e.Label)
				}
			}
		}
	}
	return nil
}

// WALOfRun applies CheckWAL to a history run.
func WALOfRun(run *Run, st *WALStats) *vf.Failure {
	var commits []CommitPoint
	for _, t := range run.Txns {
		if t.committed && t.Writes > 0 {
			commits = append(commits, CommitPoint{EventIdx: t.ret, TxnID: t.EngineTxnID})
		}
	}
	f := CheckWAL(run.Rec.Events, run.Rec.BaseLG, commits, st)
	if f != nil {
		lo := 0
		f.Msg += fmt.Sprintf(" (trace length %d)", len(run.Rec.Events))
		_ = lo
	}
	return f
}
