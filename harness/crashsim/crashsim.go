// Package crashsim records every write the engine issues at the DiskManager boundary (hook H1) and
// materialises any prefix of that trace — optionally with the last write torn — as a pair of
// database/log files on which a new instance can be started (the prefix crash model the properties state).
package crashsim

import (
	"fmt"
	"os"
	"sync"
	"time"

	"github.com/ryogrid/SamehadaDB/lib/samehada"
	"github.com/ryogrid/SamehadaDB/lib/storage/disk"
	"github.com/ryogrid/SamehadaDB/lib/types"
)

const PageSize = 4096

const (
	EvPage   = 'P' // WritePage(id, data)
	EvLog    = 'L' // WriteLog(data) (append)
	EvGC     = 'G' // GCLogFile (truncate log)
	EvMarker = 'M' // harness marker (no I/O)
)

type Event struct {
	Kind   byte
	PageID int32
	Data   []byte
	Label  string
}

func (e Event) String() string {
	switch e.Kind {
	case EvPage:
		return fmt.Sprintf("P(%d)", e.PageID)
	case EvLog:
		return fmt.Sprintf("L(%dB)", len(e.Data))
	case EvGC:
		return "G"
	}
	return "M(" + e.Label + ")"
}

// Recorder is a DiskManager wrapper. All calls are delegated; writes are recorded in order.
type Recorder struct {
	mu     sync.Mutex
	inner  disk.DiskManager
	BaseDB []byte // file contents when the wrapped instance was opened
	BaseLG []byte
	Events []Event
	// LogDelay is slept inside WriteLog before the append is recorded as stable
	LogDelay time.Duration
}

// Install arranges for the next NewSamehadaDB to run on a recorded disk manager. name is the
// database path prefix (files name.db / name.log), read now as the base image.
func Install(name string) *Recorder {
	r := &Recorder{}
	r.BaseDB, _ = os.ReadFile(name + ".db")
	r.BaseLG, _ = os.ReadFile(name + ".log")
	samehada.VerifDiskWrapper = func(d disk.DiskManager) disk.DiskManager {
		r.inner = d
		return r
	}
	return r
}

// Reinstall lets the same recorder wrap the disk manager of the next instance opened on the same files
// (restart inside a recorded history); the event list simply continues.
func (r *Recorder) Reinstall() {
	samehada.VerifDiskWrapper = func(d disk.DiskManager) disk.DiskManager {
		r.mu.Lock()
		r.inner = d
		r.mu.Unlock()
		return r
	}
}

// Uninstall removes the wrapper for subsequently created instances.
func Uninstall() { samehada.VerifDiskWrapper = nil }

func (r *Recorder) Mark(label string) int {
	r.mu.Lock()
	defer r.mu.Unlock()
	r.Events = append(r.Events, Event{Kind: EvMarker, Label: label})
	return len(r.Events) - 1
}

func (r *Recorder) Len() int {
	r.mu.Lock()
	defer r.mu.Unlock()
	return len(r.Events)
}

func (r *Recorder) ReadPage(id types.PageID, b []byte) error { return r.inner.ReadPage(id, b) }
func (r *Recorder) WritePage(id types.PageID, b []byte) error {
	r.mu.Lock()
	r.Events = append(r.Events, Event{Kind: EvPage, PageID: int32(id), Data: append([]byte{}, b...)})
	r.mu.Unlock()
	return r.inner.WritePage(id, b)
}
func (r *Recorder) AllocatePage() types.PageID     { return r.inner.AllocatePage() }
func (r *Recorder) DeallocatePage(id types.PageID) { r.inner.DeallocatePage(id) }
func (r *Recorder) GetNumWrites() uint64           { return r.inner.GetNumWrites() }
func (r *Recorder) ShutDown()                      { r.inner.ShutDown() }
func (r *Recorder) Size() int64                    { return r.inner.Size() }
func (r *Recorder) RemoveDBFile()                  { r.inner.RemoveDBFile() }
func (r *Recorder) RemoveLogFile()                 { r.inner.RemoveLogFile() }

// WriteLog records the append when the underlying call has returned (only then the bytes count as stable): a page write
// issued by another goroutine while the log write is still in progress is ordered before it. LogDelay widens that window
// (a slow log device) for the goroutine tiers.
func (r *Recorder) WriteLog(b []byte) error {
	data := append([]byte{}, b...)
	err := r.inner.WriteLog(b)
	if r.LogDelay > 0 {
		time.Sleep(r.LogDelay)
	}
	r.mu.Lock()
	r.Events = append(r.Events, Event{Kind: EvLog, Data: data})
	r.mu.Unlock()
	return err
}
func (r *Recorder) ReadLog(b []byte, off int32, n *uint32) bool { return r.inner.ReadLog(b, off, n) }
func (r *Recorder) GetLogFileSize() int64                       { return r.inner.GetLogFileSize() }
func (r *Recorder) GCLogFile() error {
	r.mu.Lock()
	r.Events = append(r.Events, Event{Kind: EvGC})
	r.mu.Unlock()
	return r.inner.GCLogFile()
}

// Tear describes a partial last write: for a log append only the first Bytes bytes reach the file;
// for a page write the first Bytes bytes are new and the rest keeps the old content.
type Tear struct {
	On    bool `json:"on"`
	Bytes int  `json:"bytes"`
}

// Image is a pair of file contents.
type Image struct {
	DB  []byte
	Log []byte
}

// Materialise builds the file contents after events[0:k) (markers are skipped); when tear.On the
// last I/O event of the prefix (index k-1 must be P or L) is applied partially.
func (r *Recorder) Materialise(k int, tear Tear) Image {
	r.mu.Lock()
	defer r.mu.Unlock()
	img := Image{DB: append([]byte{}, r.BaseDB...), Log: append([]byte{}, r.BaseLG...)}
	for i := 0; i < k && i < len(r.Events); i++ {
		e := r.Events[i]
		last := tear.On && i == k-1
		switch e.Kind {
		case EvPage:
			off := int(e.PageID) * PageSize
			n := PageSize
			if last && tear.Bytes < n {
				n = tear.Bytes
			}
			if last && tear.On && len(img.DB) <= off {
				// torn first write of a page that extends the file: the file simply ends inside the page
				img.DB = append(img.DB, make([]byte, off-len(img.DB))...)
				img.DB = append(img.DB, e.Data[:n]...)
				break
			}
			if len(img.DB) < off+PageSize {
				img.DB = append(img.DB, make([]byte, off+PageSize-len(img.DB))...)
			}
			copy(img.DB[off:off+n], e.Data[:n])
		case EvLog:
			n := len(e.Data)
			if last && tear.Bytes < n {
				n = tear.Bytes
			}
			img.Log = append(img.Log, e.Data[:n]...)
		case EvGC:
			img.Log = img.Log[:0]
		}
	}
	return img
}

// WriteFiles stores the image as name.db / name.log.
func (img Image) WriteFiles(name string) error {
	if err := os.WriteFile(name+".db", img.DB, 0o644); err != nil {
		return err
	}
	return os.WriteFile(name+".log", img.Log, 0o644)
}

// IOIndexes lists the indexes of I/O events (non-markers) in [from, to).
func (r *Recorder) IOIndexes(from, to int) []int {
	r.mu.Lock()
	defer r.mu.Unlock()
	var out []int
	for i := from; i < to && i < len(r.Events); i++ {
		if r.Events[i].Kind != EvMarker {
			out = append(out, i)
		}
	}
	return out
}

// Trace renders events [from,to) compactly (for failure messages / samples).
func (r *Recorder) Trace(from, to int) []string {
	r.mu.Lock()
	defer r.mu.Unlock()
	var out []string
	for i := from; i < to && i < len(r.Events); i++ {
		out = append(out, r.Events[i].String())
	}
	return out
}

// ExtendsFile reports whether event i is a page write beyond the end of the database file as it is after events [0,i).
func (r *Recorder) ExtendsFile(i int) bool {
	r.mu.Lock()
	defer r.mu.Unlock()
	if i < 0 || i >= len(r.Events) || r.Events[i].Kind != EvPage {
		return false
	}
	size := len(r.BaseDB)
	for _, e := range r.Events[:i] {
		if e.Kind == EvPage && (int(e.PageID)+1)*PageSize > size {
			size = (int(e.PageID) + 1) * PageSize
		}
	}
	return int(r.Events[i].PageID)*PageSize >= size
}
