package crashsim

import (
	"encoding/binary"
	"fmt"
)

// Independent parser of the write-ahead log, written from the documented record layout
// (20-byte header: size, LSN, txn id, prevLSN, type; bodies per type) — not from log_recovery.go.

const (
	RecInvalid = iota
	RecInsert
	RecMarkDelete
	RecApplyDelete
	RecRollbackDelete
	RecUpdate
	RecBegin
	RecCommit
	RecAbort
	RecNewTablePage
	RecDeallocatePage
	RecReusePage
	RecGracefulShutdown
)

var recNames = []string{"INVALID", "INSERT", "MARKDELETE", "APPLYDELETE", "ROLLBACKDELETE", "UPDATE", "BEGIN", "COMMIT", "ABORT", "NEWTABLEPAGE", "DEALLOCATEPAGE", "REUSEPAGE", "GRACEFULSHUTDOWN"}

type LogRec struct {
	Off     int
	Size    uint32
	LSN     int32
	Txn     int32
	PrevLSN int32
	Type    int32
	PageID  int32 // rid page id (DML), new page id (NEWTABLEPAGE), page id (DEALLOCATE/REUSE)
	Slot    uint32
	PrevPg  int32 // NEWTABLEPAGE
}

func (r LogRec) String() string {
	n := "?"
	if r.Type >= 0 && int(r.Type) < len(recNames) {
		n = recNames[r.Type]
	}
	switch r.Type {
	case RecInsert, RecMarkDelete, RecApplyDelete, RecRollbackDelete, RecUpdate:
		return fmt.Sprintf("%s lsn=%d txn=%d prev=%d rid=(%d,%d) size=%d", n, r.LSN, r.Txn, r.PrevLSN, r.PageID, r.Slot, r.Size)
	case RecNewTablePage:
		return fmt.Sprintf("%s lsn=%d txn=%d prev=%d page=%d prevPage=%d", n, r.LSN, r.Txn, r.PrevLSN, r.PageID, r.PrevPg)
	case RecDeallocatePage, RecReusePage:
		return fmt.Sprintf("%s page=%d", n, r.PageID)
	}
	return fmt.Sprintf("%s lsn=%d txn=%d prev=%d", n, r.LSN, r.Txn, r.PrevLSN)
}

// ParseLog parses as many whole records as the bytes hold. rest = number of trailing bytes that do
// not form a whole record; bad != "" describes the first malformed record (unknown type, size < 20).
func ParseLog(b []byte) (recs []LogRec, rest int, bad string) {
	off := 0
	for off+20 <= len(b) {
		r := LogRec{Off: off}
		r.Size = binary.LittleEndian.Uint32(b[off:])
		r.LSN = int32(binary.LittleEndian.Uint32(b[off+4:]))
		r.Txn = int32(binary.LittleEndian.Uint32(b[off+8:]))
		r.PrevLSN = int32(binary.LittleEndian.Uint32(b[off+12:]))
		r.Type = int32(binary.LittleEndian.Uint32(b[off+16:]))
		if r.Size < 20 {
			return recs, len(b) - off, fmt.Sprintf("record at offset %d has size %d < 20", off, r.Size)
		}
		if r.Type <= RecInvalid || r.Type > RecGracefulShutdown {
			return recs, len(b) - off, fmt.Sprintf("record at offset %d has unknown type %d", off, r.Type)
		}
		if off+int(r.Size) > len(b) {
			break
		}
		body := b[off+20 : off+int(r.Size)]
		switch r.Type {
		case RecInsert, RecMarkDelete, RecApplyDelete, RecRollbackDelete, RecUpdate:
			if len(body) < 8 {
				return recs, len(b) - off, fmt.Sprintf("record at offset %d (%s) too short for a row id", off, recNames[r.Type])
			}
			r.PageID = int32(binary.LittleEndian.Uint32(body))
			r.Slot = binary.LittleEndian.Uint32(body[4:])
		case RecNewTablePage:
			if len(body) < 8 {
				return recs, len(b) - off, fmt.Sprintf("NEWTABLEPAGE record at offset %d too short", off)
			}
			r.PrevPg = int32(binary.LittleEndian.Uint32(body))
			r.PageID = int32(binary.LittleEndian.Uint32(body[4:]))
		case RecDeallocatePage, RecReusePage:
			if len(body) < 4 {
				return recs, len(b) - off, fmt.Sprintf("page record at offset %d too short", off)
			}
			r.PageID = int32(binary.LittleEndian.Uint32(body))
		}
		recs = append(recs, r)
		off += int(r.Size)
	}
	return recs, len(b) - off, ""
}
