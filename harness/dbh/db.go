package dbh

import (
	"errors"
	"fmt"
	"os"
	"path/filepath"
	"sync/atomic"

	"github.com/ryogrid/SamehadaDB/lib/catalog"
	"github.com/ryogrid/SamehadaDB/lib/common"
	"github.com/ryogrid/SamehadaDB/lib/concurrency"
	"github.com/ryogrid/SamehadaDB/lib/execution/executors"
	"github.com/ryogrid/SamehadaDB/lib/execution/expression"
	"github.com/ryogrid/SamehadaDB/lib/execution/plans"
	"github.com/ryogrid/SamehadaDB/lib/parser"
	"github.com/ryogrid/SamehadaDB/lib/planner"
	"github.com/ryogrid/SamehadaDB/lib/planner/optimizer"
	"github.com/ryogrid/SamehadaDB/lib/samehada"
	"github.com/ryogrid/SamehadaDB/lib/samehada/samehada_util"
	"github.com/ryogrid/SamehadaDB/lib/storage/access"
	"github.com/ryogrid/SamehadaDB/lib/storage/buffer"
	"github.com/ryogrid/SamehadaDB/lib/storage/index/index_constants"
	"github.com/ryogrid/SamehadaDB/lib/storage/table/column"
	"github.com/ryogrid/SamehadaDB/lib/storage/table/schema"
	"github.com/ryogrid/SamehadaDB/lib/types"
)

// NoBackground switches the checkpoint / statistics goroutines off (hook H2). Process-global.
func NoBackground(on bool) {
	if concurrency.VerifNoBackgroundThreads != on { // written once per process in practice (keeps -race runs free of harness noise)
		concurrency.VerifNoBackgroundThreads = on
	}
}

var dbCounter int64

// TempDir returns a fresh scratch directory (under $VERIF_TMP, normally tmpfs).
func TempDir(prefix string) string {
	base := os.Getenv("VERIF_TMP")
	if base == "" {
		base = os.TempDir()
	}
	d, err := os.MkdirTemp(base, prefix)
	if err != nil {
		panic(err)
	}
	return d
}

type DB struct {
	S        *samehada.SamehadaDB
	Name     string // path prefix: files are <Name>.db / <Name>.log in file mode
	FileMode bool
	KB       int
}

// Open starts an instance. fileMode selects the file-backed disk manager (restart / recovery exist
// only there); otherwise the in-memory virtual disk is used. Frames = kb/4.
func Open(name string, kb int, fileMode bool) *DB {
	if common.TempSuppressOnMemStorage != fileMode {
		common.TempSuppressOnMemStorage = fileMode
	}
	if !fileMode {
		name = fmt.Sprintf("%s-%d", name, atomic.AddInt64(&dbCounter, 1))
	}
	s := samehada.NewSamehadaDB(name, kb)
	return &DB{S: s, Name: name, FileMode: fileMode, KB: kb}
}

func (d *DB) Cat() *catalog.Catalog          { return d.S.GetCatalogForTesting() }
func (d *DB) BPM() *buffer.BufferPoolManager { return d.S.GetSamehadaInstance().GetBufferPoolManager() }
func (d *DB) TM() *access.TransactionManager {
	return d.S.GetSamehadaInstance().GetTransactionManager()
}
func (d *DB) Instance() *samehada.SamehadaInstance { return d.S.GetSamehadaInstance() }

// Shutdown is the clean shutdown of the public API.
func (d *DB) Shutdown() { d.S.Shutdown() }

// Stop closes the files without flushing anything (the engine's own "crash" helper for tests).
func (d *DB) Stop() { d.S.ShutdownForTescase() }

// Reopen starts a new instance on the same files (file mode only).
func (d *DB) Reopen() *DB { return Open(d.Name, d.KB, true) }

// RemoveFiles deletes the database files of a file-mode instance.
func RemoveFiles(name string) {
	os.Remove(name + ".db")
	os.Remove(name + ".log")
	os.Remove(filepath.Dir(name))
}

// Checkpoint forces a checkpoint; only call while no harness transaction is open (it takes the
// global transaction latch exclusively).
func (d *DB) Checkpoint() { d.S.ForceCheckpointingForTestcase() }

// ---- DDL -----------------------------------------------------------------------------------------

func idxKind(k string) (bool, index_constants.IndexKind) {
	switch k {
	case IdxSkip:
		return true, index_constants.IndexKindSkipList
	case IdxUniqSkip:
		return true, index_constants.IndexKindUniqSkipList
	case IdxBtree:
		return true, index_constants.IndexKindBtree
	case IdxHash:
		return true, index_constants.IndexKindHash
	}
	return false, index_constants.IndexKindInvalid
}

func typeID(t string) types.TypeID {
	switch t {
	case "i":
		return types.Integer
	case "f":
		return types.Float
	}
	return types.Varchar
}

// CreateTable creates the table through SQL (def.SQL) or through the catalog API with the given
// index kinds, in its own committed transaction.
func (d *DB) CreateTable(def *TableDef) error {
	if def.SQL {
		err, _ := d.S.ExecuteSQLRetValues(def.CreateSQL())
		return err
	}
	cols := make([]*column.Column, 0, len(def.Cols))
	for _, c := range def.Cols {
		has, kind := idxKind(c.Idx)
		cols = append(cols, column.NewColumn(c.Name, typeID(c.T), has, kind, types.PageID(-1), nil))
	}
	txn := d.TM().Begin(nil)
	d.Cat().CreateTable(def.Name, schema.NewSchema(cols), txn)
	d.TM().Commit(d.Cat(), txn)
	return nil
}

// ---- transactions --------------------------------------------------------------------------------

type Txn struct {
	D       *DB
	T       *access.Transaction
	Done    bool
	Aborted bool
}

func (d *DB) Begin() *Txn { return &Txn{D: d, T: d.TM().Begin(nil)} }

func (t *Txn) Commit() {
	if t.Done {
		return
	}
	t.D.TM().Commit(t.D.Cat(), t.T)
	t.Done = true
}

func (t *Txn) Abort() {
	if t.Done {
		return
	}
	t.D.TM().Abort(t.D.Cat(), t.T)
	t.Done, t.Aborted = true, true
}

var ErrAborted = errors.New("transaction aborted by the engine")

// substitute overwrites every constant of the parsed statement with vals (textual order).
func substitute(qi *parser.QueryInfo, vals []Val) error {
	i := 0
	next := func() (*types.Value, error) {
		if i >= len(vals) {
			return nil, fmt.Errorf("substitute: statement has more constants than supplied (%d)", len(vals))
		}
		v := vals[i].ToValue()
		i++
		return &v, nil
	}
	for k := range qi.Values {
		v, err := next()
		if err != nil {
			return err
		}
		qi.Values[k] = v
	}
	for _, se := range qi.SetExpressions {
		v, err := next()
		if err != nil {
			return err
		}
		se.UpdateValue = v
	}
	var walk func(e *parser.BinaryOpExpression) error
	walk = func(e *parser.BinaryOpExpression) error {
		if e == nil {
			return nil
		}
		for _, side := range []*interface{}{&e.Left, &e.Right} {
			switch x := (*side).(type) {
			case *parser.BinaryOpExpression:
				if err := walk(x); err != nil {
					return err
				}
			case *types.Value:
				v, err := next()
				if err != nil {
					return err
				}
				*side = v
			}
		}
		return nil
	}
	if err := walk(qi.WhereExpression); err != nil {
		return err
	}
	if i != len(vals) {
		return fmt.Errorf("substitute: %d constants supplied, statement has %d", len(vals), i)
	}
	return nil
}

// Plan parses and plans a statement inside the transaction (constants substituted when subst != nil).
func (t *Txn) Plan(sql string, subst []Val) (plans.Plan, *parser.QueryInfo, error) {
	qi, err := parser.ProcessSQLStr(&sql)
	if err != nil {
		return nil, nil, err
	}
	if subst != nil {
		if err := substitute(qi, subst); err != nil {
			panic(err) // harness bug
		}
	}
	qi, err = optimizer.RewriteQueryInfo(t.D.Cat(), qi)
	if err != nil {
		return nil, nil, err
	}
	err, plan := planner.NewSimplePlanner(t.D.Cat(), t.D.BPM()).MakePlan(qi, t.T)
	if err != nil {
		return nil, qi, err
	}
	if plan == nil {
		if *qi.QueryType == parser.CreateTable {
			return nil, qi, nil
		}
		return nil, qi, samehada.PlanCreationErr
	}
	return plan, qi, nil
}

// RunPlan executes a plan in the transaction. If the engine marks the transaction aborted it is
// rolled back (exactly what ExecuteSQLRetValues does) and ErrAborted is returned.
func (t *Txn) RunPlan(plan plans.Plan) ([]Row, error) {
	ctx := executors.NewExecutorContext(t.D.Cat(), t.D.BPM(), t.T)
	res := (&executors.ExecutionEngine{}).Execute(plan, ctx)
	if t.T.GetState() == access.ABORTED {
		t.Abort()
		return nil, ErrAborted
	}
	out := plan.OutputSchema()
	if out == nil {
		return nil, nil
	}
	vals := samehada_util.ConvTupleListToValues(out, res)
	rows := make([]Row, len(vals))
	for i, r := range vals {
		row := make(Row, len(r))
		for j, v := range r {
			row[j] = FromValue(v)
		}
		rows[i] = row
	}
	return rows, nil
}

// ExecSQL runs one statement (text, optional substituted constants) in the open transaction.
func (t *Txn) ExecSQL(sql string, subst []Val) ([]Row, error) {
	if t.Done {
		panic("ExecSQL on finished transaction")
	}
	plan, _, err := t.Plan(sql, subst)
	if err != nil || plan == nil {
		return nil, err
	}
	return t.RunPlan(plan)
}

// Exec runs a model statement: through pure SQL text when every constant has a literal form and
// s.Plan is false, otherwise through placeholder text + plan-level substitution.
func (t *Txn) Exec(s *Stmt) ([]Row, error) {
	if s.Plan || s.NeedsPlan() {
		return t.ExecSQL(s.SQL(true), s.Values())
	}
	return t.ExecSQL(s.SQL(false), nil)
}

// Auto runs the statement as its own transaction (begin; exec; commit or abort).
func (d *DB) Auto(s *Stmt) ([]Row, error) {
	t := d.Begin()
	rows, err := t.Exec(s)
	if !t.Done {
		t.Commit()
	}
	return rows, err
}

func (d *DB) AutoSQL(sql string) ([]Row, error) {
	t := d.Begin()
	rows, err := t.ExecSQL(sql, nil)
	if !t.Done {
		t.Commit()
	}
	return rows, err
}

// ScanAll reads a table through an explicit sequential-scan plan in its own transaction.
func (d *DB) ScanAll(table string) ([]Row, error) {
	tm := d.Cat().GetTableByName(table)
	if tm == nil {
		return nil, fmt.Errorf("table %s not found", table)
	}
	t := d.Begin()
	rows, err := t.RunPlan(plans.NewSeqScanPlanNode(d.Cat(), tm.Schema(), nil, tm.OID()))
	if !t.Done {
		t.Commit()
	}
	return rows, err
}

// PlanShape lists the node types of a plan tree (pre-order), e.g. ["Projection","Selection","IndexRangeScan"].
func PlanShape(p plans.Plan) []string {
	names := map[plans.PlanType]string{plans.SeqScan: "SeqScan", plans.Insert: "Insert", plans.Delete: "Delete", plans.Limit: "Limit",
		plans.IndexPointScan: "IndexPointScan", plans.IndexRangeScan: "IndexRangeScan", plans.NestedLoopJoin: "NestedLoopJoin",
		plans.HashJoin: "HashJoin", plans.IndexJoin: "IndexJoin", plans.Aggregation: "Aggregation", plans.Orderby: "Orderby",
		plans.Projection: "Projection", plans.Selection: "Selection"}
	var out []string
	var walk func(p plans.Plan)
	walk = func(p plans.Plan) {
		if p == nil {
			return
		}
		n, ok := names[p.GetType()]
		if !ok {
			n = fmt.Sprintf("type%d", p.GetType())
		}
		out = append(out, n)
		for _, c := range p.GetChildren() {
			walk(c)
		}
	}
	walk(p)
	return out
}

// PinnedPages returns pageID -> pin count for every frame with a positive pin count.
func (d *DB) PinnedPages() map[int32]int32 {
	out := map[int32]int32{}
	for _, p := range d.BPM().GetPages() {
		if p != nil && p.PinCount() > 0 {
			out[int32(p.GetPageID())] += p.PinCount()
		}
	}
	return out
}

// FrontDoor runs SQL text through the public ExecuteSQLRetValues (parser literals included).
func (d *DB) FrontDoor(sql string) ([]Row, error) {
	err, vals := d.S.ExecuteSQLRetValues(sql)
	if err != nil {
		return nil, err
	}
	rows := make([]Row, len(vals))
	for i, r := range vals {
		row := make(Row, len(r))
		for j, v := range r {
			row[j] = FromValue(v)
		}
		rows[i] = row
	}
	return rows, nil
}

// PlanStmt plans a model statement in the transaction and reports the plan's node types.
func (t *Txn) PlanStmt(s *Stmt) (plans.Plan, []string, error) {
	var p plans.Plan
	var err error
	if s.Plan || s.NeedsPlan() {
		p, _, err = t.Plan(s.SQL(true), s.Values())
	} else {
		p, _, err = t.Plan(s.SQL(false), nil)
	}
	if err != nil || p == nil {
		return nil, nil, err
	}
	return p, PlanShape(p), nil
}

// ExecJoin runs a join query in the transaction (plan-level substitution when needed).
func (t *Txn) ExecJoin(q *JoinQuery) ([]Row, error) {
	if q.NeedsPlan() {
		return t.ExecSQL(q.SQL(true), q.Values())
	}
	return t.ExecSQL(q.SQL(false), nil)
}

// PlanJoin plans a join query and reports the plan's node types.
func (t *Txn) PlanJoin(q *JoinQuery) (plans.Plan, []string, error) {
	var p plans.Plan
	var err error
	if q.NeedsPlan() {
		p, _, err = t.Plan(q.SQL(true), q.Values())
	} else {
		p, _, err = t.Plan(q.SQL(false), nil)
	}
	if err != nil || p == nil {
		return nil, nil, err
	}
	return p, PlanShape(p), nil
}

// ---- explicit access paths (any index kind) ---------------------------------------------------------------

func (d *DB) rowsOf(t *Txn, plan plans.Plan) ([]Row, error) {
	rows, err := t.RunPlan(plan)
	if !t.Done {
		t.Commit()
	}
	return rows, err
}

// PointScan reads table rows whose column col equals key through an explicit PointScanWithIndexPlanNode.
func (d *DB) PointScan(table string, col int, key Val) ([]Row, error) {
	tm := d.Cat().GetTableByName(table)
	if tm == nil {
		return nil, fmt.Errorf("table %s not found", table)
	}
	cmp := expression.NewComparison(expression.NewColumnValue(0, uint32(col), key.TypeID()),
		expression.NewConstantValue(key.ToValue(), key.TypeID()), expression.Equal, types.Boolean).(*expression.Comparison)
	return d.rowsOf(d.Begin(), plans.NewPointScanWithIndexPlanNode(d.Cat(), tm.Schema(), cmp, tm.OID()))
}

// PointPlan builds an explicit index point scan (column = key) to be run inside the transaction.
func (t *Txn) PointPlan(table string, col int, key Val) (plans.Plan, error) {
	tm := t.D.Cat().GetTableByName(table)
	if tm == nil {
		return nil, fmt.Errorf("table %s not found", table)
	}
	cmp := expression.NewComparison(expression.NewColumnValue(0, uint32(col), key.TypeID()),
		expression.NewConstantValue(key.ToValue(), key.TypeID()), expression.Equal, types.Boolean).(*expression.Comparison)
	return plans.NewPointScanWithIndexPlanNode(t.D.Cat(), tm.Schema(), cmp, tm.OID()), nil
}

// RangeScan reads rows with lo <= column <= hi through an explicit RangeScanWithIndexPlanNode; nil = open end.
func (d *DB) RangeScan(table string, col int, lo, hi *Val) ([]Row, error) {
	tm := d.Cat().GetTableByName(table)
	if tm == nil {
		return nil, fmt.Errorf("table %s not found", table)
	}
	var s, e *types.Value
	if lo != nil {
		v := lo.ToValue()
		s = &v
	}
	if hi != nil {
		v := hi.ToValue()
		e = &v
	}
	return d.rowsOf(d.Begin(), plans.NewRangeScanWithIndexPlanNode(d.Cat(), tm.Schema(), tm.OID(), int32(col), nil, s, e))
}
