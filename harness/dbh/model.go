package dbh

import (
	"fmt"
	"strings"
)

// ---- schema -------------------------------------------------------------------------------------

const (
	IdxNone     = "none"
	IdxSkip     = "skip"
	IdxUniqSkip = "uniq"
	IdxBtree    = "btree"
	IdxHash     = "hash"
)

type Col struct {
	Name string `json:"name"`
	T    string `json:"t"`             // "i" | "f" | "s"
	Idx  string `json:"idx,omitempty"` // index kind (catalog-created tables); SQL-created tables have skip-list on all
}

func (c Col) TB() byte { return c.T[0] }

type TableDef struct {
	Name string `json:"name"`
	Cols []Col  `json:"cols"`
	SQL  bool   `json:"sql"` // created through CREATE TABLE (every column skip-list indexed)
}

func (t *TableDef) ColIdx(name string) int {
	for i, c := range t.Cols {
		if c.Name == name {
			return i
		}
	}
	return -1
}

func (t *TableDef) CreateSQL() string {
	var p []string
	for _, c := range t.Cols {
		ty := map[string]string{"i": "int", "f": "float", "s": "varchar(255)"}[c.T]
		p = append(p, c.Name+" "+ty)
	}
	return "CREATE TABLE " + t.Name + "(" + strings.Join(p, ", ") + ");"
}

// ---- predicates ---------------------------------------------------------------------------------

// Pred: leaf (Col Cmp V) or logical node (Op = "and"/"or" with L, R).
type Pred struct {
	Op  string `json:"op,omitempty"`
	L   *Pred  `json:"l,omitempty"`
	R   *Pred  `json:"r,omitempty"`
	Col string `json:"col,omitempty"`
	Cmp string `json:"cmp,omitempty"` // = <> < <= > >=
	V   *Val   `json:"v,omitempty"`
	// Flip: the leaf is written with the constant on the left ("3 < a" for "a > 3"); same meaning
	Flip bool `json:"flip,omitempty"`
}

var mirrored = map[string]string{"=": "=", "<>": "<>", "<": ">", "<=": ">=", ">": "<", ">=": "<="}

// leafSQL renders a leaf, the constant on the right or (Flip) on the left with the comparison mirrored.
func (p *Pred) leafSQL(lit func(Val) string) string {
	if p.Flip {
		return lit(*p.V) + " " + mirrored[p.Cmp] + " " + p.Col
	}
	return p.Col + " " + p.Cmp + " " + lit(*p.V)
}

func Leaf(col, cmp string, v Val) *Pred { return &Pred{Col: col, Cmp: cmp, V: &v} }
func And(l, r *Pred) *Pred              { return &Pred{Op: "and", L: l, R: r} }
func Or(l, r *Pred) *Pred               { return &Pred{Op: "or", L: l, R: r} }

func (p *Pred) IsLeaf() bool { return p.Op == "" }

func (p *Pred) HasOr() bool {
	if p == nil || p.IsLeaf() {
		return false
	}
	return p.Op == "or" || p.L.HasOr() || p.R.HasOr()
}

// Leaves returns the comparison leaves in textual (in-order) order.
func (p *Pred) Leaves() []*Pred {
	if p == nil {
		return nil
	}
	if p.IsLeaf() {
		return []*Pred{p}
	}
	return append(p.L.Leaves(), p.R.Leaves()...)
}

// sql renders the predicate. lit chooses the literal text of a leaf. Nested logical nodes of a
// different operator are parenthesised; the top level never is (the front end rejects that form).
func (p *Pred) sql(lit func(Val) string, parentOp string) string {
	if p.IsLeaf() {
		return p.leafSQL(lit)
	}
	s := p.L.sql(lit, p.Op) + " " + strings.ToUpper(p.Op) + " " + p.R.sql(lit, p.Op)
	if parentOp != "" && parentOp != p.Op {
		return "(" + s + ")"
	}
	return s
}

// NullNE selects the answer of "<NULL column> <> constant": the engine's evaluator says true,
// SQL says unknown (no row). The property does not fix it, so callers evaluate both.
type EvalMode struct{ NullNE bool }

func cmpHolds(cmp string, a, b Val, m EvalMode) bool {
	if a.Null || b.Null {
		if a.Null && b.Null {
			return cmp == "=" || cmp == "<=" || cmp == ">="
		}
		if cmp == "<>" {
			return m.NullNE
		}
		return false
	}
	c := Compare3(a, b)
	switch cmp {
	case "=":
		return c == 0
	case "<>":
		return c != 0
	case "<":
		return c < 0
	case "<=":
		return c <= 0
	case ">":
		return c > 0
	case ">=":
		return c >= 0
	}
	panic("bad cmp " + cmp)
}

// Eval evaluates the predicate on a row; resolve maps a column name to its value.
func (p *Pred) Eval(resolve func(col string) Val, m EvalMode) bool {
	if p == nil {
		return true
	}
	if p.IsLeaf() {
		return cmpHolds(p.Cmp, resolve(p.Col), *p.V, m)
	}
	if p.Op == "and" {
		return p.L.Eval(resolve, m) && p.R.Eval(resolve, m)
	}
	return p.L.Eval(resolve, m) || p.R.Eval(resolve, m)
}

// ---- statements ---------------------------------------------------------------------------------

type SetItem struct {
	Col string `json:"col"`
	V   Val    `json:"v"`
}

type Stmt struct {
	Kind  string    `json:"kind"` // select | insert | update | delete
	Table string    `json:"table"`
	Cols  []string  `json:"cols,omitempty"`  // select list (nil/empty = *) or insert column list
	Where *Pred     `json:"where,omitempty"` // select/update/delete
	Rows  []Row     `json:"rows,omitempty"`  // insert
	Set   []SetItem `json:"set,omitempty"`   // update
	Plan  bool      `json:"plan,omitempty"`  // force plan-level constant substitution even if all values have literals
}

// Values lists every constant of the statement in textual order.
func (s *Stmt) Values() []Val {
	var out []Val
	switch s.Kind {
	case "insert":
		for _, r := range s.Rows {
			out = append(out, r...)
		}
	case "update":
		for _, it := range s.Set {
			out = append(out, it.V)
		}
	}
	for _, l := range s.Where.Leaves() {
		out = append(out, *l.V)
	}
	return out
}

// NeedsPlan reports whether some constant has no literal form in the SQL front end.
func (s *Stmt) NeedsPlan() bool {
	for _, v := range s.Values() {
		if _, ok := v.SQLLiteral(); !ok {
			return true
		}
	}
	return false
}

// SQL renders the statement; with placeholders=true every constant is a type-correct dummy literal
// (to be overwritten after parsing).
func (s *Stmt) SQL(placeholders bool) string {
	lit := func(v Val) string {
		if placeholders {
			return v.PlaceholderLiteral()
		}
		t, ok := v.SQLLiteral()
		if !ok {
			panic("value has no SQL literal: " + v.String())
		}
		return t
	}
	var sb strings.Builder
	switch s.Kind {
	case "select":
		sb.WriteString("SELECT ")
		if len(s.Cols) == 0 {
			sb.WriteString("*")
		} else {
			sb.WriteString(strings.Join(s.Cols, ", "))
		}
		sb.WriteString(" FROM " + s.Table)
	case "insert":
		sb.WriteString("INSERT INTO " + s.Table + "(" + strings.Join(s.Cols, ", ") + ") VALUES ")
		for i, r := range s.Rows {
			if i > 0 {
				sb.WriteString(", ")
			}
			p := make([]string, len(r))
			for j, v := range r {
				p[j] = lit(v)
			}
			sb.WriteString("(" + strings.Join(p, ", ") + ")")
		}
	case "update":
		sb.WriteString("UPDATE " + s.Table + " SET ")
		for i, it := range s.Set {
			if i > 0 {
				sb.WriteString(", ")
			}
			sb.WriteString(it.Col + " = " + lit(it.V))
		}
	case "delete":
		sb.WriteString("DELETE FROM " + s.Table)
	default:
		panic("bad stmt kind " + s.Kind)
	}
	if s.Where != nil && s.Kind != "insert" {
		sb.WriteString(" WHERE " + s.Where.sql(lit, ""))
	}
	sb.WriteString(";")
	return sb.String()
}

func (s *Stmt) String() string {
	if s.NeedsPlan() {
		vals := s.Values()
		p := make([]string, len(vals))
		for i, v := range vals {
			p[i] = v.String()
		}
		return s.SQL(true) + " /* constants: " + strings.Join(p, ", ") + " */"
	}
	return s.SQL(false)
}

// ---- model database -----------------------------------------------------------------------------

type MTable struct {
	Def  *TableDef
	Rows []Row
}

type MDB struct {
	Tables map[string]*MTable
	// Gone["table.col"]: values that rows removed or overwritten by Apply had in that column (at most 6 per column, latest
	// first): keys an index must no longer return rows for unless another row still carries them
	Gone map[string][]Val
}

func NewMDB() *MDB { return &MDB{Tables: map[string]*MTable{}, Gone: map[string][]Val{}} }

func (m *MDB) noteGone(t *MTable, old Row, now Row) {
	if m.Gone == nil {
		m.Gone = map[string][]Val{}
	}
	for i, c := range t.Def.Cols {
		if old[i].Null || (now != nil && Compare3(old[i], now[i]) == 0 && !now[i].Null) {
			continue
		}
		k := t.Def.Name + "." + c.Name
		l := append([]Val{old[i]}, m.Gone[k]...)
		if len(l) > 6 {
			l = l[:6]
		}
		m.Gone[k] = l
	}
}

func (m *MDB) Create(def *TableDef) { m.Tables[def.Name] = &MTable{Def: def} }

func (m *MDB) Clone() *MDB {
	n := NewMDB()
	for k, t := range m.Tables {
		nt := &MTable{Def: t.Def, Rows: make([]Row, len(t.Rows))}
		for i, r := range t.Rows {
			nt.Rows[i] = r.Clone()
		}
		n.Tables[k] = nt
	}
	for k, v := range m.Gone {
		n.Gone[k] = append([]Val{}, v...)
	}
	return n
}

func (t *MTable) resolver(r Row) func(string) Val {
	return func(col string) Val {
		if i := strings.LastIndex(col, "."); i >= 0 {
			col = col[i+1:]
		}
		i := t.Def.ColIdx(col)
		if i < 0 {
			panic("model: unknown column " + col + " in " + t.Def.Name)
		}
		return r[i]
	}
}

// Select returns the model answer (projected, in table order of matching rows).
func (m *MDB) Select(s *Stmt, mode EvalMode) []Row {
	t := m.Tables[s.Table]
	var out []Row
	for _, r := range t.Rows {
		if s.Where.Eval(t.resolver(r), mode) {
			out = append(out, t.project(r, s.Cols))
		}
	}
	return out
}

func (t *MTable) project(r Row, cols []string) Row {
	if len(cols) == 0 {
		return r.Clone()
	}
	o := make(Row, len(cols))
	for i, c := range cols {
		o[i] = r[t.Def.ColIdx(c)]
	}
	return o
}

// Apply executes a DML statement on the model and returns the number of rows affected.
func (m *MDB) Apply(s *Stmt, mode EvalMode) int {
	t := m.Tables[s.Table]
	switch s.Kind {
	case "insert":
		for _, r := range s.Rows {
			full := make(Row, len(t.Def.Cols))
			for i, c := range t.Def.Cols {
				full[i] = NullV(c.TB())
			}
			for j, cn := range s.Cols {
				full[t.Def.ColIdx(cn)] = r[j]
			}
			t.Rows = append(t.Rows, full)
		}
		return len(s.Rows)
	case "update":
		n := 0
		for i, r := range t.Rows {
			if s.Where.Eval(t.resolver(r), mode) {
				nr := r.Clone()
				for _, it := range s.Set {
					nr[t.Def.ColIdx(it.Col)] = it.V
				}
				m.noteGone(t, r, nr)
				t.Rows[i] = nr
				n++
			}
		}
		return n
	case "delete":
		var keep []Row
		n := 0
		for _, r := range t.Rows {
			if s.Where.Eval(t.resolver(r), mode) {
				m.noteGone(t, r, nil)
				n++
			} else {
				keep = append(keep, r)
			}
		}
		t.Rows = keep
		return n
	}
	panic("Apply: not DML: " + s.Kind)
}

func (m *MDB) String() string {
	var sb strings.Builder
	for n, t := range m.Tables {
		fmt.Fprintf(&sb, "%s: %d rows; ", n, len(t.Rows))
	}
	return sb.String()
}

// ---- multi-table queries ----------------------------------------------------------------------------

// ColRef is a qualified column "table.col".
type ColRef struct {
	T string `json:"t"`
	C string `json:"c"`
}

func (c ColRef) String() string { return c.T + "." + c.C }

type JoinCond struct {
	L ColRef `json:"l"`
	R ColRef `json:"r"`
}

// JoinQuery: SELECT <cols|*> FROM t1 JOIN t2 ON l=r [WHERE ...]   (UseOn, exactly two tables)
// or        SELECT <cols|*> FROM t1, t2[, t3] WHERE l=r AND ... AND <filters>.
type JoinQuery struct {
	Tables  []string   `json:"tables"`
	UseOn   bool       `json:"use_on,omitempty"`
	Conds   []JoinCond `json:"conds"`             // equality join conditions (the first one goes to ON when UseOn)
	Filters []*Pred    `json:"filters,omitempty"` // leaves with qualified column names, AND-ed
	Cols    []ColRef   `json:"cols,omitempty"`    // nil = *
}

func (q *JoinQuery) Values() []Val {
	var out []Val
	for _, f := range q.Filters {
		out = append(out, *f.V)
	}
	return out
}

func (q *JoinQuery) NeedsPlan() bool {
	for _, v := range q.Values() {
		if _, ok := v.SQLLiteral(); !ok {
			return true
		}
	}
	return false
}

func (q *JoinQuery) SQL(placeholders bool) string {
	lit := func(v Val) string {
		if placeholders {
			return v.PlaceholderLiteral()
		}
		t, ok := v.SQLLiteral()
		if !ok {
			panic("value has no SQL literal: " + v.String())
		}
		return t
	}
	var sb strings.Builder
	sb.WriteString("SELECT ")
	if len(q.Cols) == 0 {
		sb.WriteString("*")
	} else {
		p := make([]string, len(q.Cols))
		for i, c := range q.Cols {
			p[i] = c.String()
		}
		sb.WriteString(strings.Join(p, ", "))
	}
	conds := q.Conds
	if q.UseOn {
		sb.WriteString(" FROM " + q.Tables[0] + " JOIN " + q.Tables[1] + " ON " + conds[0].L.String() + " = " + conds[0].R.String())
		conds = conds[1:]
	} else {
		sb.WriteString(" FROM " + strings.Join(q.Tables, ", "))
	}
	var w []string
	for _, c := range conds {
		w = append(w, c.L.String()+" = "+c.R.String())
	}
	for _, f := range q.Filters {
		w = append(w, f.leafSQL(lit))
	}
	if len(w) > 0 {
		sb.WriteString(" WHERE " + strings.Join(w, " AND "))
	}
	sb.WriteString(";")
	return sb.String()
}

func (q *JoinQuery) String() string {
	if q.NeedsPlan() {
		vals := q.Values()
		p := make([]string, len(vals))
		for i, v := range vals {
			p[i] = v.String()
		}
		return q.SQL(true) + " /* constants: " + strings.Join(p, ", ") + " */"
	}
	return q.SQL(false)
}

// Join evaluates the query naively (nested loops over the base rows).
func (m *MDB) Join(q *JoinQuery, mode EvalMode) []Row {
	tabs := make([]*MTable, len(q.Tables))
	for i, n := range q.Tables {
		tabs[i] = m.Tables[n]
	}
	cur := make([]Row, len(tabs))
	lookup := func(c ColRef) Val {
		for i, n := range q.Tables {
			if n == c.T {
				return cur[i][tabs[i].Def.ColIdx(c.C)]
			}
		}
		panic("model: unknown table in " + c.String())
	}
	var out []Row
	var rec func(i int)
	rec = func(i int) {
		if i == len(tabs) {
			for _, c := range q.Conds {
				l, r := lookup(c.L), lookup(c.R)
				if l.Null || r.Null || Compare3(l, r) != 0 {
					return
				}
			}
			for _, f := range q.Filters {
				parts := strings.SplitN(f.Col, ".", 2)
				if !cmpHolds(f.Cmp, lookup(ColRef{parts[0], parts[1]}), *f.V, mode) {
					return
				}
			}
			var row Row
			if len(q.Cols) == 0 {
				for _, r := range cur {
					row = append(row, r...)
				}
			} else {
				for _, c := range q.Cols {
					row = append(row, lookup(c))
				}
			}
			out = append(out, row)
			return
		}
		for _, r := range tabs[i].Rows {
			cur[i] = r
			rec(i + 1)
		}
	}
	rec(0)
	return out
}
