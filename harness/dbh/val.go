// Package dbh drives a SamehadaDB instance from the harness (open/close in memory or file mode,
// explicit multi-statement transactions, plan-level constant substitution) and contains the naive
// SQL reference model the differential checks compare against.
package dbh

import (
	"encoding/json"
	"fmt"
	"math"
	"sort"
	"strconv"
	"strings"

	"github.com/ryogrid/SamehadaDB/lib/types"
)

// Val is a typed SQL value: T = 'i' int32, 'f' float32, 's' string; Null marks NULL of that type.
type Val struct {
	T    byte
	Null bool
	I    int32
	F    float32
	S    string
}

func IntV(i int32) Val     { return Val{T: 'i', I: i} }
func FloatV(f float32) Val { return Val{T: 'f', F: f} }
func StrV(s string) Val    { return Val{T: 's', S: s} }
func NullV(t byte) Val     { return Val{T: t, Null: true} }

// JSON: ints as {"i":n}, floats as {"f":"<bits hex>","~":"<text>"}, strings as {"s":"..."} (bytes that
// are not valid UTF-8 as {"sb":[...]}), NULL as {"null":"i|f|s"}.
func (v Val) MarshalJSON() ([]byte, error) {
	if v.Null {
		return json.Marshal(map[string]string{"null": string(v.T)})
	}
	switch v.T {
	case 'i':
		return []byte(`{"i":` + strconv.Itoa(int(v.I)) + `}`), nil
	case 'f':
		return []byte(fmt.Sprintf(`{"f":"%08x","~":"%v"}`, math.Float32bits(v.F), v.F)), nil
	case 's':
		if isPlainUTF8(v.S) {
			b, _ := json.Marshal(v.S)
			return []byte(`{"s":` + string(b) + `}`), nil
		}
		bs := make([]int, len(v.S))
		for i := 0; i < len(v.S); i++ {
			bs[i] = int(v.S[i])
		}
		b, _ := json.Marshal(bs)
		return []byte(`{"sb":` + string(b) + `}`), nil
	}
	return nil, fmt.Errorf("bad Val type %q", v.T)
}

func isPlainUTF8(s string) bool {
	for _, r := range s {
		if r == 0xFFFD {
			return false
		}
	}
	b, _ := json.Marshal(s)
	var back string
	return json.Unmarshal(b, &back) == nil && back == s
}

func (v *Val) UnmarshalJSON(b []byte) error {
	var m map[string]json.RawMessage
	if err := json.Unmarshal(b, &m); err != nil {
		return err
	}
	*v = Val{}
	if x, ok := m["null"]; ok {
		var s string
		json.Unmarshal(x, &s)
		v.T, v.Null = s[0], true
		return nil
	}
	if x, ok := m["i"]; ok {
		var n int64
		if err := json.Unmarshal(x, &n); err != nil {
			return err
		}
		v.T, v.I = 'i', int32(n)
		return nil
	}
	if x, ok := m["f"]; ok {
		var s string
		json.Unmarshal(x, &s)
		u, err := strconv.ParseUint(s, 16, 32)
		if err != nil {
			return err
		}
		v.T, v.F = 'f', math.Float32frombits(uint32(u))
		return nil
	}
	if x, ok := m["s"]; ok {
		v.T = 's'
		return json.Unmarshal(x, &v.S)
	}
	if x, ok := m["sb"]; ok {
		var bs []int
		if err := json.Unmarshal(x, &bs); err != nil {
			return err
		}
		bb := make([]byte, len(bs))
		for i, c := range bs {
			bb[i] = byte(c)
		}
		v.T, v.S = 's', string(bb)
		return nil
	}
	return fmt.Errorf("bad Val json %s", b)
}

func (v Val) String() string {
	if v.Null {
		return "NULL"
	}
	switch v.T {
	case 'i':
		return strconv.Itoa(int(v.I))
	case 'f':
		return fmt.Sprintf("%v", v.F)
	}
	if len(v.S) > 40 {
		return fmt.Sprintf("%q…(%d)", v.S[:40], len(v.S))
	}
	return strconv.Quote(v.S)
}

// Key is a canonical comparable representation (bit-identical equality; -0.0 != +0.0 here).
func (v Val) Key() string {
	if v.Null {
		return "N" + string(v.T)
	}
	switch v.T {
	case 'i':
		return "i" + strconv.Itoa(int(v.I))
	case 'f':
		return "f" + strconv.FormatUint(uint64(math.Float32bits(v.F)), 16)
	}
	return "s" + v.S
}

// ToValue converts to the engine's value type.
func (v Val) ToValue() types.Value {
	var r types.Value
	switch v.T {
	case 'i':
		r = types.NewInteger(v.I)
	case 'f':
		r = types.NewFloat(v.F)
	default:
		r = types.NewVarchar(v.S)
	}
	if v.Null {
		r = *r.SetNull()
	}
	return r
}

func (v Val) TypeID() types.TypeID {
	switch v.T {
	case 'i':
		return types.Integer
	case 'f':
		return types.Float
	}
	return types.Varchar
}

func TypeByte(t types.TypeID) byte {
	switch t {
	case types.Integer:
		return 'i'
	case types.Float:
		return 'f'
	case types.Varchar:
		return 's'
	}
	panic(fmt.Sprintf("unsupported type id %v", t))
}

// FromValue converts an engine value.
func FromValue(x *types.Value) Val {
	t := TypeByte(x.ValueType())
	if x.IsNull() {
		return NullV(t)
	}
	switch t {
	case 'i':
		return IntV(x.ToInteger())
	case 'f':
		return FloatV(x.ToFloat())
	}
	return StrV(x.ToVarchar())
}

// SQLLiteral renders the value in a literal form the front end accepts; ok=false when it has none
// (negative numbers, NULL, non-finite or inexact floats, strings with quote/backslash/NUL/non-ASCII-printable).
func (v Val) SQLLiteral() (string, bool) {
	if v.Null {
		return "", false
	}
	switch v.T {
	case 'i':
		if v.I < 0 {
			return "", false
		}
		return strconv.Itoa(int(v.I)), true
	case 'f':
		if v.F < 0 || math.IsInf(float64(v.F), 0) || v.F != v.F || (v.F == 0 && math.Signbit(float64(v.F))) {
			return "", false
		}
		s := strconv.FormatFloat(float64(v.F), 'f', -1, 32)
		if !strings.Contains(s, ".") {
			s += ".0"
		}
		parts := strings.SplitN(s, ".", 2)
		if len(parts[0]) > 30 || len(parts[1]) > 20 {
			return "", false
		}
		return s, true
	default:
		for i := 0; i < len(v.S); i++ {
			c := v.S[i]
			if c < 0x20 || c > 0x7e || c == '\'' || c == '\\' || c == '"' {
				return "", false
			}
		}
		return "'" + v.S + "'", true
	}
}

// PlaceholderLiteral is a syntactically valid literal of the value's type (used when the real value
// is substituted at plan level after parsing).
func (v Val) PlaceholderLiteral() string {
	switch v.T {
	case 'i':
		return "0"
	case 'f':
		return "0.5"
	}
	return "'x'"
}

// Compare3 orders two non-NULL values of the same type (plain Go comparison; strings bytewise).
func Compare3(a, b Val) int {
	switch a.T {
	case 'i':
		switch {
		case a.I < b.I:
			return -1
		case a.I > b.I:
			return 1
		}
		return 0
	case 'f':
		switch {
		case a.F < b.F:
			return -1
		case a.F > b.F:
			return 1
		}
		return 0
	}
	return strings.Compare(a.S, b.S)
}

type Row []Val

func (r Row) Key() string {
	var sb strings.Builder
	for _, v := range r {
		k := v.Key()
		sb.WriteString(strconv.Itoa(len(k)))
		sb.WriteByte(':')
		sb.WriteString(k)
	}
	return sb.String()
}

func (r Row) String() string {
	p := make([]string, len(r))
	for i, v := range r {
		p[i] = v.String()
	}
	return "(" + strings.Join(p, ", ") + ")"
}

func (r Row) Clone() Row { return append(Row{}, r...) }

// MultisetDiff compares two row multisets; "" when equal, else a short description.
func MultisetDiff(got, want []Row) string {
	m := map[string]int{}
	ex := map[string]Row{}
	for _, r := range want {
		k := r.Key()
		m[k]++
		ex[k] = r
	}
	for _, r := range got {
		k := r.Key()
		m[k]--
		ex[k] = r
	}
	var missing, extra []string
	keys := make([]string, 0, len(m))
	for k := range m {
		keys = append(keys, k)
	}
	sort.Strings(keys)
	for _, k := range keys {
		n := m[k]
		if n > 0 {
			missing = append(missing, fmt.Sprintf("%s x%d", ex[k], n))
		} else if n < 0 {
			extra = append(extra, fmt.Sprintf("%s x%d", ex[k], -n))
		}
	}
	if len(missing) == 0 && len(extra) == 0 {
		return ""
	}
	cut := func(s []string) string {
		if len(s) > 6 {
			return strings.Join(s[:6], " ") + fmt.Sprintf(" …(+%d)", len(s)-6)
		}
		return strings.Join(s, " ")
	}
	return fmt.Sprintf("got %d rows, want %d; missing: [%s] unexpected: [%s]", len(got), len(want), cut(missing), cut(extra))
}
