// C01 — Committed transactions survive any crash (fault enumeration over I/O prefixes of generated histories).
package c01

import (
	"encoding/json"
	"testing"

	"pgregory.net/rapid"

	"verifharness/crasheng"
	"verifharness/vf"
)

var profile = crasheng.Profile{AbortPct: 15, MaxTxns: 8, Checkpoint: 12, Reopen: 10, Bulk: 4, OpenMid: 8, PostCrash: 20, Huge: 2, Churn: 4}

const rule = "Case = generated history (tables t(id,v,n) with skip-list indexes on id,n and optionally s(id,n) without indexes; 0-30 committed setup inserts; 1-8 sequential transactions of 1-4 statements: inserts of 8-1200 byte rows, in-place updates, growing/shrinking updates that relocate, single and multi-row deletes; commit / explicit abort; forced checkpoints; crash and clean restarts inside the history (their recovery I/O is part of the trace); pool of 12-100 frames) x crash point (every prefix of the recorded WritePage/WriteLog/GCLogFile trace when <= 60, else all marker-adjacent prefixes plus an even sample; optionally the last write torn). Oracle per crash point: restart returns; every table equals state(D) or state(D+U) (D = transactions whose commit returned before the crash, U = commit in progress); the recovered database accepts insert/update/index read/scan read/delete (and a growth phase) with model-equal results. Only failures classified as lost committed effects / failed restart / refused statements count for C01; loser-visible failures are counted under C02's check. Non-trivial = a crash point with at least one committed writer before it."

var assumptions = []string{
	"prefix crash model at the DiskManager boundary (every write the engine issued before the crash point is on disk, none after; optional torn last write); OS-level reordering of un-synced page writes is not modelled",
	"sequential transactions from one goroutine; background checkpoint/statistics threads disabled (hook H2); I/O recorded through hook H1",
	"crash points inside bootstrap / CREATE TABLE are outside this property's quantifier (history starts after setup)",
}

func explore(h *crasheng.History) (*vf.Failure, *crasheng.Stats) {
	st := &crasheng.Stats{Classes: map[string]bool{}}
	var f *vf.Failure
	g := vf.Guard(func() *vf.Failure {
		ff, v := crasheng.Explore(h, "C01", st)
		if ff != nil && v != nil {
			ff.Extra = map[string]any{"k": v.K, "tear": v.Tear, "extra": ff.Extra}
		}
		f = ff
		return nil
	})
	if g != nil {
		g.Class = "harness-or-engine-" + g.Class
		return g, st
	}
	return f, st
}

func classes(st *crasheng.Stats, h *crasheng.History) []string {
	var c []string
	for k := range st.Classes {
		c = append(c, k)
	}
	if st.Aborted > 0 {
		c = append(c, "has-abort")
	}
	if st.Checkpoints > 0 {
		c = append(c, "has-checkpoint")
	}
	if st.Reopens > 0 {
		c = append(c, "restart-inside-history")
	}
	if st.TornPoints > 0 {
		c = append(c, "has-torn-write")
	}
	if st.EngineAborted > 0 {
		c = append(c, "engine-aborted-txn")
	}
	if h.Growth {
		c = append(c, "growth-phase")
	}
	if h.KB <= 64 {
		c = append(c, "small-pool")
	}
	return c
}

func TestSearch(t *testing.T) {
	s := vf.Open("C01")
	s.Rule, s.Assumptions = rule, assumptions
	defer func() { s.Flush(!t.Failed()) }()
	var points, nontriv int64
	rapid.Check(t, func(rt *rapid.T) {
		h := crasheng.GenHistory(rt, profile)
		if h.Tear && s.ExclusionOn("torn-page-write") {
			h.NoTornPage = true
			s.Excluded("torn-page-write")
		}
		f, st := explore(h)
		points += int64(st.CrashPoints)
		nontriv += int64(st.NontrivPoints)
		s.Count(h, st.NontrivPoints > 0, classes(st, h)...)
		s.Class("crash-points", int64(st.CrashPoints))
		s.Class("crash-points-nontrivial", int64(st.NontrivPoints))
		s.Class("crash-points-torn", int64(st.TornPoints))
		s.Judge(rt, h, f)
	})
	s.Notes["crash_points_explored"] = points
}

func TestReplay(t *testing.T) {
	s := vf.Open("C01")
	s.Rule, s.Assumptions = rule, assumptions
	defer func() { s.Flush(true) }()
	s.Replay(func(raw json.RawMessage) *vf.Failure {
		var h crasheng.History
		if err := json.Unmarshal(raw, &h); err != nil {
			return vf.Failf("bad-case", "%v", err)
		}
		f, _ := explore(&h)
		return f
	})
}
