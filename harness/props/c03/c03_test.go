// C03 — Abort restores the exact pre-transaction state.
package c03

import (
	"encoding/json"
	"testing"

	"pgregory.net/rapid"

	"verifharness/dbh"
	"verifharness/restarteng"
	"verifharness/sqlgen"
	"verifharness/vf"
)

const rule = "Case = 1-2 tables (SQL-created with skip-list indexes; catalog-created with none/skip-list per column; catalog-created with a unique-skip-list, B-tree or hash index on the key column), 0-14 committed setup statements, a victim transaction of 1-10 statements (multi-row inserts, in-place / growing / shrinking updates, deletes, repeated changes of the same rows, on indexed and non-indexed columns) that is aborted explicitly or by a lock conflict provoked by a second transaction that read-locks every row before the victim's last statement, then 0-4 committed follow-up statements; in-memory and file mode, pools from the minimum. In a third of the cases other transactions insert rows into the same tables and commit while the victim is open (the expected state then includes their rows). Oracle (round trip): after the abort every table equals the pre-transaction model through sequential scan, and for every indexed column point lookups on present/absent keys and closed/half-open/full range scans through explicit index plans (and the SQL optimizer path for skip-list tables) give the pre-transaction answers; after the follow-ups tables and indexes equal the model. Non-trivial = the victim performed at least one successful write before the abort."

var assumptions = []string{
	"statements follow what each index kind documents (unique keys on unique indexes, no UPDATE on hash-indexed tables, B-tree/hash/unique tables modified through the sequential plan)",
	"NULL '<>' ambiguity: statements whose effect depends on it are not executed",
	"single goroutine; background threads disabled (hook H2)",
}

var sess *vf.Session

func opts() restarteng.GenOpts {
	o := restarteng.GenOpts{MaxTables: 2, MaxCols: 4, SpecialKind: []string{dbh.IdxUniqSkip, dbh.IdxBtree, dbh.IdxHash}, Prof: sqlgen.Profile{MaxStr: 300}}
	if sess != nil && sess.ExclusionOn("sentinel-strings") {
		o.Prof.NoSentinelStr = true
	}
	return o
}

func TestSearch(t *testing.T) {
	s := vf.Open("C03")
	s.Rule, s.Assumptions = rule, assumptions
	sess = s
	defer func() { s.Flush(!t.Failed()) }()
	rapid.Check(t, func(rt *rapid.T) {
		c := restarteng.GenAbort(rt, opts())
		st := &restarteng.AbortStats{Classes: map[string]bool{}}
		f := restarteng.RunAbort(c, st)
		var cls []string
		for k := range st.Classes {
			cls = append(cls, k)
		}
		if c.File {
			cls = append(cls, "file-mode")
		}
		s.Count(c, st.VictimWrites > 0, cls...)
		s.Judge(rt, c, f)
	})
}

func TestReplay(t *testing.T) {
	s := vf.Open("C03")
	s.Rule, s.Assumptions = rule, assumptions
	defer func() { s.Flush(true) }()
	s.Replay(func(raw json.RawMessage) *vf.Failure {
		var c restarteng.AbortCase
		if err := json.Unmarshal(raw, &c); err != nil {
			return vf.Failf("bad-case", "%v", err)
		}
		return restarteng.RunAbort(&c, &restarteng.AbortStats{Classes: map[string]bool{}})
	})
}
