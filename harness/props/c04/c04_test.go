// C04 — Statements see committed data plus their own writes, or abort.
package c04

import (
	"encoding/json"
	"fmt"
	"testing"

	"pgregory.net/rapid"

	"verifharness/schedeng"
	"verifharness/vf"
)

type Case struct {
	P     schedeng.Program `json:"program"`
	All   bool             `json:"all"`             // run every interleaving of the program (thorough)
	Words [][]int          `json:"words,omitempty"` // explicit interleavings (quick / replay)
}

const maxAll = 3000

type agg struct {
	schedules, nontriv, completed, aborted int
	classes                                map[string]bool
	excluded                               map[string]int
}

func runCase(c *Case, opt schedeng.Options) (*vf.Failure, *agg, []int) {
	a := &agg{classes: map[string]bool{}, excluded: map[string]int{}}
	var fail *vf.Failure
	var failWord []int
	one := func(w []int) bool {
		f, r := schedeng.RunSchedule(&c.P, w, opt)
		a.schedules++
		if r != nil {
			if r.NontrivReads > 0 {
				a.nontriv++
			}
			a.completed += r.Completed
			a.aborted += r.Aborted
			for k := range r.PlanClasses {
				a.classes[k] = true
			}
			for k, n := range r.Excluded {
				a.excluded[k] += n
			}
		}
		if f != nil {
			fail = f
			failWord = append([]int{}, w...)
			f.Msg = fmt.Sprintf("schedule %v: %s", w, f.Msg)
			return false
		}
		return true
	}
	if c.All {
		n := 0
		schedeng.Interleavings(c.P.Counts(), func(w []int) bool {
			n++
			if n > maxAll {
				return false
			}
			return one(w)
		})
		if n <= maxAll {
			a.classes["all-interleavings-of-program"] = true
		}
	} else {
		for _, w := range c.Words {
			if !one(w) {
				break
			}
		}
	}
	return fail, a, failWord
}

const rule = "Case = program of 2-3 transactions x 1-4 statements (+ commit/abort) over t(id,k,v) and u(id,k) with 3-8 / 2-5 committed rows: reads by sequential scan (predicate with OR), index point (k = c, id = x), index range (k >= a AND k <= b), full table, join probe (t JOIN u on k); inserts, deletes by id / by key, key-changing updates, relocating updates; executed from one goroutine under explicit statement-level interleavings (quick: <= 40 sampled per program; thorough: every interleaving of the program up to 3000). Oracle: a statement either leaves its transaction aborted or returns exactly the answer over (latest committed rows + the transaction's own earlier writes); after all transactions ended the tables equal the model's committed state. Non-trivial = a schedule in which a read executed while another open transaction had uncommitted writes on the table it reads."

var assumptions = []string{
	"statement-level interleavings from one goroutine (row locks are no-wait, page latches are released inside each call); interleavings inside a statement are only reached by the goroutine workloads of C19",
	"an abort is always an acceptable outcome (the share of statements that completed is reported)",
	"background threads disabled (hook H2), in-memory storage",
}

var sess *vf.Session

func options() schedeng.Options {
	o := schedeng.Options{}
	if sess != nil && sess.ExclusionOn("index-read-by-preimage-key-of-open-rekey") {
		o.Exclude = schedeng.ExcludeIndexReadOfRekeyedRow
	}
	return o
}

func TestSearch(t *testing.T) {
	s := vf.Open("C04")
	s.Rule, s.Assumptions = rule, assumptions
	sess = s
	defer func() { s.Flush(!t.Failed()) }()
	var sched, completed, aborted int64
	rapid.Check(t, func(rt *rapid.T) {
		c := &Case{P: *schedeng.GenProgram(rt, schedeng.GenOpts{MaxTxns: 3, MaxStmts: 4, Joins: true})}
		if s.Thorough() && rapid.IntRange(0, 1).Draw(rt, "all") == 0 {
			c.All = true
		} else {
			n := rapid.IntRange(1, s.Pick(12, 40)).Draw(rt, "nwords")
			for i := 0; i < n; i++ {
				c.Words = append(c.Words, schedeng.GenWord(rt, &c.P))
			}
		}
		f, a, w := runCase(c, options())
		sched += int64(a.schedules)
		completed += int64(a.completed)
		aborted += int64(a.aborted)
		var cls []string
		for k := range a.classes {
			cls = append(cls, k)
		}
		s.Count(c, a.nontriv > 0, cls...)
		s.Class("schedules", int64(a.schedules))
		s.Class("schedules-nontrivial", int64(a.nontriv))
		for k, n := range a.excluded {
			for i := 0; i < n; i++ {
				s.Excluded(k)
			}
		}
		if f != nil {
			c.All, c.Words = false, [][]int{w}
		}
		s.Judge(rt, c, f)
	})
	s.Notes["statements_completed"] = completed
	s.Notes["transactions_aborted_by_engine"] = aborted
	s.Notes["schedules"] = sched
}

func TestReplay(t *testing.T) {
	s := vf.Open("C04")
	s.Rule, s.Assumptions = rule, assumptions
	defer func() { s.Flush(true) }()
	s.Replay(func(raw json.RawMessage) *vf.Failure {
		if f, ok := replayConcurrent(s, raw); ok {
			return f
		}
		var c Case
		if err := json.Unmarshal(raw, &c); err != nil {
			return vf.Failf("bad-case", "%v", err)
		}
		f, _, _ := runCase(&c, options())
		return f
	})
}
