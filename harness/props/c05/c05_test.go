// C05 — Committed transactions are serializable on the rows they touch.
// Read-modify-write programs over a fixed row set, every write installs a globally unique value;
// from the recorded history the direct serialization graph over committed transactions is built
// (WR, WW, RW edges) and must be acyclic; the final table must hold the last committed version.
package c05

import (
	"encoding/json"
	"fmt"
	"sort"
	"strings"
	"testing"

	"pgregory.net/rapid"

	"verifharness/dbh"
	"verifharness/schedeng"
	"verifharness/vf"
)

type Case struct {
	P     schedeng.Program `json:"program"`
	All   bool             `json:"all"`
	Words [][]int          `json:"words,omitempty"`
}

const maxAll = 3000

// ---- generator: read-modify-write scripts -----------------------------------------------------------------

func genProgram(t *rapid.T) *schedeng.Program {
	p := &schedeng.Program{Defs: []dbh.TableDef{schedeng.TDef}, KB: 200}
	n := rapid.IntRange(2, 5).Draw(t, "nrows")
	var rows []dbh.Row
	for i := 1; i <= n; i++ {
		rows = append(rows, dbh.Row{dbh.IntV(int32(i)), dbh.IntV(int32(i % 3)), dbh.StrV(fmt.Sprintf("init%d", i))})
	}
	p.Init = [][]dbh.Row{rows}
	val := 0
	cols := []string{"id", "k", "v"}
	ntx := rapid.IntRange(2, 3).Draw(t, "ntxns")
	shape := rapid.SampledFrom([]string{"random", "random", "lost-update", "write-skew", "fuzzy-read"}).Draw(t, "shape")
	read := func(l string, id int32) schedeng.Step {
		switch rapid.IntRange(0, 3).Draw(t, l) {
		case 0: // index point on id
			return schedeng.Step{S: &dbh.Stmt{Kind: "select", Table: "t", Cols: cols, Where: dbh.Leaf("id", "=", dbh.IntV(id))}}
		case 1: // index range on id
			return schedeng.Step{S: &dbh.Stmt{Kind: "select", Table: "t", Cols: cols, Where: dbh.And(dbh.Leaf("id", ">=", dbh.IntV(id)), dbh.Leaf("id", "<=", dbh.IntV(id)))}}
		case 2: // sequential scan
			return schedeng.Step{S: &dbh.Stmt{Kind: "select", Table: "t", Cols: cols, Where: dbh.Or(dbh.Leaf("id", "=", dbh.IntV(id)), dbh.Leaf("id", "=", dbh.IntV(7777777)))}}
		default: // by the (never updated) key column k: reads every row with that k
			return schedeng.Step{S: &dbh.Stmt{Kind: "select", Table: "t", Cols: cols, Where: dbh.Leaf("k", "=", dbh.IntV(id%3))}}
		}
	}
	write := func(id int32) schedeng.Step {
		val++
		return schedeng.Step{S: &dbh.Stmt{Kind: "update", Table: "t", Set: []dbh.SetItem{{Col: "v", V: dbh.StrV(fmt.Sprintf("w%d", val))}}, Where: dbh.Leaf("id", "=", dbh.IntV(id))}}
	}
	pick := func(l string) int32 { return rapid.Int32Range(1, int32(n)).Draw(t, l) }
	for x := 0; x < ntx; x++ {
		var steps []schedeng.Step
		switch shape {
		case "lost-update":
			steps = []schedeng.Step{read("r", 1), write(1)}
		case "write-skew":
			tgt := int32(1 + x%2)
			steps = []schedeng.Step{read("r1", 1), read("r2", 2), write(tgt)}
		case "fuzzy-read":
			if x == 0 {
				steps = []schedeng.Step{read("r1", 1), read("r2", 1)}
			} else {
				steps = []schedeng.Step{write(1)}
			}
		default:
			ns := rapid.IntRange(1, 4).Draw(t, "nsteps")
			for i := 0; i < ns; i++ {
				if rapid.IntRange(0, 2).Draw(t, "rw") == 0 {
					steps = append(steps, write(pick("wid")))
				} else {
					steps = append(steps, read("r", pick("rid")))
				}
			}
		}
		end := "commit"
		if rapid.IntRange(0, 5).Draw(t, "abort") == 0 {
			end = "abort"
		}
		steps = append(steps, schedeng.Step{End: end})
		p.Txns = append(p.Txns, steps)
	}
	return p
}

// ---- oracle: DSG over the recorded history ---------------------------------------------------------------

type stats struct {
	schedules, nontrivial int
	classes               map[string]bool
	excluded              map[string]int
}

func checkHistory(p *schedeng.Program, res *schedeng.Result, final map[string][]dbh.Row) (*vf.Failure, bool) {
	committed := map[int]bool{}
	for _, t := range res.CommittedTxns {
		committed[t] = true
	}
	initial := map[int32]string{}
	for _, r := range p.Init[0] {
		initial[r[0].I] = r[2].S
	}
	writer := map[string]int{} // value -> transaction that wrote it
	type wr struct {
		txn int
		val string
	}
	chains := map[int32][]wr{} // row id -> committed writes in execution order
	type rd struct {
		txn int
		id  int32
		val string
	}
	var reads []rd
	own := map[int]map[int32]string{} // latest own write per txn/row
	for _, e := range res.History {
		if e.Outcome != "ok" {
			continue
		}
		st := p.Txns[e.Txn][e.Step]
		if st.S == nil {
			continue
		}
		if st.S.Kind == "update" {
			id := st.S.Where.V.I
			v := st.S.Set[0].V.S
			writer[v] = e.Txn
			if own[e.Txn] == nil {
				own[e.Txn] = map[int32]string{}
			}
			own[e.Txn][id] = v
			if committed[e.Txn] {
				chains[id] = append(chains[id], wr{e.Txn, v})
			}
		} else if st.S.Kind == "select" {
			for _, r := range e.Rows {
				reads = append(reads, rd{e.Txn, r[0].I, r[2].S})
			}
		}
	}
	// final state = last committed version
	for _, r := range final["t"] {
		want := initial[r[0].I]
		if c := chains[r[0].I]; len(c) > 0 {
			want = c[len(c)-1].val
		}
		if r[2].S != want {
			return vf.Failf("lost-update", "row %d ends with %q but the last committed write is %q\nhistory: %s", r[0].I, r[2].S, want, schedeng.HistString(res.History)), true
		}
	}
	if len(final["t"]) != len(p.Init[0]) {
		return vf.Failf("row-set-changed", "table has %d rows, started with %d", len(final["t"]), len(p.Init[0])), true
	}
	// edges
	edges := map[int]map[int]string{}
	add := func(a, b int, why string) {
		if a == b || !committed[a] || !committed[b] {
			return
		}
		if edges[a] == nil {
			edges[a] = map[int]string{}
		}
		if _, ok := edges[a][b]; !ok {
			edges[a][b] = why
		}
	}
	for id, c := range chains {
		for i := 1; i < len(c); i++ {
			add(c[i-1].txn, c[i].txn, fmt.Sprintf("WW on row %d (%s then %s)", id, c[i-1].val, c[i].val))
		}
	}
	for _, r := range reads {
		if !committed[r.txn] {
			continue
		}
		// position of the version read in the row's committed chain (-1 = initial)
		pos := -2
		if r.val == initial[r.id] {
			pos = -1
		}
		for i, w := range chains[r.id] {
			if w.val == r.val {
				pos = i
			}
		}
		if pos == -2 {
			w, known := writer[r.val]
			if known && w == r.txn {
				continue // own uncommitted write read back: no edge
			}
			if known {
				return vf.Failf("dirty-read", "committed T%d read %q of row %d, written by T%d which did not commit\nhistory: %s", r.txn, r.val, r.id, w, schedeng.HistString(res.History)), true
			}
			return vf.Failf("unknown-value", "T%d read %q of row %d which nobody wrote\nhistory: %s", r.txn, r.val, r.id, schedeng.HistString(res.History)), true
		}
		if pos >= 0 {
			add(chains[r.id][pos].txn, r.txn, fmt.Sprintf("WR on row %d (%s)", r.id, r.val))
		}
		if pos+1 < len(chains[r.id]) {
			nx := chains[r.id][pos+1]
			if nx.txn != r.txn {
				add(r.txn, nx.txn, fmt.Sprintf("RW on row %d (read %s, overwritten by %s)", r.id, r.val, nx.val))
			} else if pos+2 < len(chains[r.id]) {
				// read then own write: anti-dependency to whoever overwrote after us is covered by WW
			}
		}
	}
	// cycle detection
	color := map[int]int{}
	var stack []int
	var cyc []string
	var dfs func(u int) bool
	dfs = func(u int) bool {
		color[u] = 1
		stack = append(stack, u)
		var vs []int
		for v := range edges[u] {
			vs = append(vs, v)
		}
		sort.Ints(vs)
		for _, v := range vs {
			if color[v] == 1 {
				// cycle: from v ... u -> v
				i := 0
				for stack[i] != v {
					i++
				}
				path := append(append([]int{}, stack[i:]...), v)
				for j := 0; j+1 < len(path); j++ {
					cyc = append(cyc, fmt.Sprintf("T%d -> T%d: %s", path[j], path[j+1], edges[path[j]][path[j+1]]))
				}
				return true
			}
			if color[v] == 0 && dfs(v) {
				return true
			}
		}
		stack = stack[:len(stack)-1]
		color[u] = 2
		return false
	}
	var ts []int
	for t := range committed {
		ts = append(ts, t)
	}
	sort.Ints(ts)
	for _, t := range ts {
		if color[t] == 0 && dfs(t) {
			return vf.Failf("dsg-cycle", "committed transactions are not serializable: %s\nhistory: %s", strings.Join(cyc, "; "), schedeng.HistString(res.History)), true
		}
	}
	// non-trivial: >= 2 committed transactions with an edge between them
	return nil, len(edges) > 0
}

func runCase(c *Case, exclude bool) (*vf.Failure, *stats, []int) {
	st := &stats{classes: map[string]bool{}, excluded: map[string]int{}}
	var fail *vf.Failure
	var failWord []int
	one := func(w []int) bool {
		final := map[string][]dbh.Row{}
		opt := schedeng.Options{NoModelCheck: true, FinalRows: func(t string, rows []dbh.Row) { final[t] = rows }}
		f, r := schedeng.RunSchedule(&c.P, w, opt)
		st.schedules++
		if f == nil {
			var nt bool
			f, nt = checkHistory(&c.P, r, final)
			if nt {
				st.nontrivial++
			}
			for k := range r.PlanClasses {
				st.classes[k] = true
			}
			if len(r.CommittedTxns) >= 2 {
				st.classes["two-or-more-committed"] = true
			}
		}
		if f != nil {
			fail, failWord = f, append([]int{}, w...)
			f.Msg = fmt.Sprintf("schedule %v: %s", w, f.Msg)
			return false
		}
		return true
	}
	if c.All {
		n := 0
		schedeng.Interleavings(c.P.Counts(), func(w []int) bool {
			n++
			if n > maxAll {
				return false
			}
			return one(w)
		})
		if n <= maxAll {
			st.classes["all-interleavings-of-program"] = true
		}
	} else {
		for _, w := range c.Words {
			if !one(w) {
				break
			}
		}
	}
	return fail, st, failWord
}

const rule = "Case = program of 2-3 read-modify-write transactions over a fixed row set (no inserts/deletes, so no phantoms): reads of 1 row or a key group through index point, index range, sequential scan; updates by id installing a globally unique value; commit/abort; random scripts plus lost-update, write-skew and fuzzy-read shapes; executed under statement-level interleavings from one goroutine (quick: sampled, thorough: all interleavings of the program up to 3000). Oracle: per row the version chain of committed writes, the direct serialization graph over committed transactions (WR, WW, RW edges) must be acyclic, no committed transaction reads a value of a transaction that did not commit, the final table holds the last committed version of every row. Non-trivial = the graph has at least one edge between two committed transactions."

var assumptions = []string{
	"version order of a row = execution order of the committed writes (updates are in place and exclusive locks are held to the end; a violation of that shows as a wrong final value)",
	"statement-level interleavings from one goroutine; finer interleavings only through the goroutine workloads of C19",
}

func TestSearch(t *testing.T) {
	s := vf.Open("C05")
	s.Rule, s.Assumptions = rule, assumptions
	defer func() { s.Flush(!t.Failed()) }()
	rapid.Check(t, func(rt *rapid.T) {
		c := &Case{P: *genProgram(rt)}
		if s.Thorough() || rapid.IntRange(0, 2).Draw(rt, "all") == 0 {
			c.All = true
		} else {
			n := rapid.IntRange(1, 20).Draw(rt, "nwords")
			for i := 0; i < n; i++ {
				c.Words = append(c.Words, schedeng.GenWord(rt, &c.P))
			}
		}
		f, st, w := runCase(c, true)
		var cls []string
		for k := range st.classes {
			cls = append(cls, k)
		}
		s.Count(c, st.nontrivial > 0, cls...)
		s.Class("schedules", int64(st.schedules))
		s.Class("schedules-nontrivial", int64(st.nontrivial))
		if f != nil {
			c.All, c.Words = false, [][]int{w}
		}
		s.Judge(rt, c, f)
	})
}

func TestReplay(t *testing.T) {
	s := vf.Open("C05")
	s.Rule, s.Assumptions = rule, assumptions
	defer func() { s.Flush(true) }()
	s.Replay(func(raw json.RawMessage) *vf.Failure {
		if f, ok := replayConcurrent(s, raw); ok {
			return f
		}
		var c Case
		if err := json.Unmarshal(raw, &c); err != nil {
			return vf.Failf("bad-case", "%v", err)
		}
		f, _, _ := runCase(&c, true)
		return f
	})
}
