package c05

import (
	"encoding/json"
	"testing"

	"verifharness/conceng"
	"verifharness/vf"
)

// TestConcurrent: goroutine tier (real scheduling): recorded histories of multi-statement transactions, see conceng.
func TestConcurrent(t *testing.T) {
	s := vf.Open("C05")
	s.Rule, s.Assumptions = conceng.Rule, []string{
		"schedules are whatever the Go runtime produces; a failing run is saved with its recorded history and replayed by re-running the configuration",
		"only value-preserving predicates are used (rows are never inserted, deleted or re-keyed), so the documented phantom exception and the known finding about re-keyed rows cannot interfere",
	}
	defer func() { s.Flush(!t.Failed()) }()
	conceng.Campaign(t, s, "c05:", s.Pick(24, 400))
}

func replayConcurrent(s *vf.Session, raw json.RawMessage) (*vf.Failure, bool) {
	var probe struct {
		Clients int `json:"clients"`
	}
	if json.Unmarshal(raw, &probe) != nil || probe.Clients == 0 {
		return nil, false
	}
	var c conceng.Case
	if err := json.Unmarshal(raw, &c); err != nil {
		return vf.Failf("bad-case", "%v", err), true
	}
	return conceng.Replay(s, &c.Config, "c05:"), true
}
