// C06 — Every supported single-table statement returns the reference answer.
// Differential testing against a naive SQL model + metamorphic plan-path variants.
package c06

import (
	"encoding/json"
	"fmt"
	"math"
	"strings"
	"testing"
	"time"

	"pgregory.net/rapid"

	"verifharness/dbh"
	"verifharness/sqlgen"
	"verifharness/vf"
)

type Case struct {
	Def   dbh.TableDef `json:"def"`
	Init  []dbh.Row    `json:"init"`
	Stats bool         `json:"stats"` // refresh optimizer statistics after loading (changes plan choice)
	KB    int          `json:"kb"`
	Stmts []dbh.Stmt   `json:"stmts"`
}

type stats struct {
	nontrivial   int
	indexPath    int
	multiBound   int
	nulls        bool
	multiPage    bool
	planLevel    int
	skippedNE    int
	relocUpdates int
	classes      map[string]bool
}

func hasIndexNode(shape []string) bool {
	for _, s := range shape {
		if strings.HasPrefix(s, "Index") {
			return true
		}
	}
	return false
}

func matches(got []dbh.Row, wants ...[]dbh.Row) string {
	d := ""
	for _, w := range wants {
		d = dbh.MultisetDiff(got, w)
		if d == "" {
			return ""
		}
	}
	return d
}

func runCase(c *Case) (*vf.Failure, *stats) {
	st := &stats{classes: map[string]bool{}}
	f, _ := vf.WithTimeout(60*time.Second, func() *vf.Failure { return run(c, st) })
	return f, st
}

func run(c *Case, st *stats) *vf.Failure {
	dbh.NoBackground(true)
	db := dbh.Open("c06", c.KB, false)
	defer db.Stop()
	m := dbh.NewMDB()
	def := c.Def
	if err := db.CreateTable(&def); err != nil {
		return vf.Failf("create-error", "%v", err)
	}
	m.Create(&def)
	colNames := make([]string, len(def.Cols))
	for i, cl := range def.Cols {
		colNames[i] = cl.Name
	}
	// load initial rows (multi-row inserts, plan-level so any value can be stored)
	for i := 0; i < len(c.Init); i += 25 {
		j := i + 25
		if j > len(c.Init) {
			j = len(c.Init)
		}
		ins := &dbh.Stmt{Kind: "insert", Table: def.Name, Cols: colNames, Rows: c.Init[i:j], Plan: true}
		if _, err := db.Auto(ins); err != nil {
			return vf.Failf("load-error", "loading rows %d..%d: %v", i, j, err)
		}
		m.Apply(ins, dbh.EvalMode{})
	}
	bytes := 0
	for _, r := range c.Init {
		for _, v := range r {
			if v.Null {
				st.nulls = true
			}
			bytes += 5 + len(v.S)
		}
	}
	st.multiPage = bytes > 4200
	if c.Stats {
		tm := db.Cat().GetTableByName(def.Name)
		t := db.Begin()
		if err := tm.GetStatistics().Update(tm, t.T); err != nil {
			return vf.Failf("stats-error", "%v", err)
		}
		t.Commit()
	}
	if f := compareTable(db, m, def.Name, "after load"); f != nil {
		return f
	}

	for si := range c.Stmts {
		s := &c.Stmts[si]
		if s.Plan || s.NeedsPlan() {
			st.planLevel++
		}
		switch s.Kind {
		case "select":
			wantA := m.Select(s, dbh.EvalMode{NullNE: true})
			wantB := m.Select(s, dbh.EvalMode{NullNE: false})
			total := len(m.Tables[def.Name].Rows)
			if total > 0 && len(wantA) > 0 && len(wantA) < total {
				st.nontrivial++
			}
			if sqlgen.MultiBoundCols(s.Where) > 0 {
				st.multiBound++
				st.classes["multi-bound-one-column"] = true
			}
			// (i) the statement as written, three times (plan choice among equal costs follows map order)
			for rep := 0; rep < 3; rep++ {
				t := db.Begin()
				plan, shape, perr := t.PlanStmt(s)
				if plan == nil {
					if !t.Done {
						t.Commit()
					}
					return vf.Failf("plan-error", "stmt %d %s: %v", si, s, perr)
				}
				idx := hasIndexNode(shape)
				if idx {
					st.indexPath++
					st.classes["index-path"] = true
				} else {
					st.classes["seq-path"] = true
				}
				rows, err := t.RunPlan(plan)
				if !t.Done {
					t.Commit()
				}
				if err != nil {
					return vf.Failf("select-error", "stmt %d %s: %v (plan %v)", si, s, err, shape)
				}
				if d := matches(rows, wantA, wantB); d != "" {
					cls := "select-mismatch:seq"
					if idx {
						cls = "select-mismatch:index"
					}
					return vf.Failf(cls, "stmt %d %s: %s (plan %v)", si, s, d, shape)
				}
			}
			// (ii) front door (pure SQL text through ExecuteSQLRetValues) when every constant has a literal
			if !s.Plan && !s.NeedsPlan() {
				rows, err := db.FrontDoor(s.SQL(false))
				if err != nil {
					return vf.Failf("select-error", "stmt %d %s via ExecuteSQLRetValues: %v", si, s, err)
				}
				if d := matches(rows, wantA, wantB); d != "" {
					return vf.Failf("select-mismatch:frontdoor", "stmt %d %s: %s", si, s, d)
				}
			}
			// (iii) metamorphic: the same predicate with a tautologically false OR-branch forces the sequential plan
			if s.Where != nil && !s.Where.HasOr() {
				if alt := sqlgen.WithDeadOrBranch(s, m.Tables[def.Name]); alt != nil {
					rows, err := db.Auto(alt)
					if err != nil {
						return vf.Failf("select-error", "stmt %d OR-variant %s: %v", si, alt, err)
					}
					if d := matches(rows, wantA, wantB); d != "" {
						return vf.Failf("select-mismatch:or-variant", "stmt %d %s: %s", si, alt, d)
					}
				}
			}
		default:
			a, b := m.Clone(), m.Clone()
			a.Apply(s, dbh.EvalMode{NullNE: true})
			b.Apply(s, dbh.EvalMode{NullNE: false})
			if dbh.MultisetDiff(a.Tables[def.Name].Rows, b.Tables[def.Name].Rows) != "" {
				st.skippedNE++ // "<>" against a NULL column: the property does not fix the outcome; do not run DML whose effect is ambiguous
				continue
			}
			before := len(m.Tables[def.Name].Rows)
			var err error
			if !s.Plan && !s.NeedsPlan() {
				_, err = db.FrontDoor(s.SQL(false))
			} else {
				_, err = db.Auto(s)
			}
			if err != nil {
				return vf.Failf("dml-error:"+s.Kind, "stmt %d %s: %v", si, s, err)
			}
			n := m.Apply(s, dbh.EvalMode{})
			if n > 0 && (s.Kind == "insert" || n < before) {
				st.nontrivial++
			}
			if s.Kind == "update" {
				for _, it := range s.Set {
					if len(it.V.S) > 40 {
						st.relocUpdates++
						st.classes["update-grows-row"] = true
					}
				}
			}
			if f := compareTable(db, m, def.Name, fmt.Sprintf("after stmt %d %s", si, s)); f != nil {
				f.Class = "dml-mismatch:" + s.Kind
				return f
			}
		}
	}
	return nil
}

func compareTable(db *dbh.DB, m *dbh.MDB, name, when string) *vf.Failure {
	rows, err := db.ScanAll(name)
	if err != nil {
		return vf.Failf("scan-error", "%s: full scan failed: %v", when, err)
	}
	if d := dbh.MultisetDiff(rows, m.Tables[name].Rows); d != "" {
		return vf.Failf("table-mismatch", "%s: table differs from model: %s", when, d)
	}
	return nil
}

// ---- generator -----------------------------------------------------------------------------------

var sess *vf.Session

func genCase(t *rapid.T) *Case {
	c := &Case{KB: rapid.SampledFrom([]int{64, 128, 400}).Draw(t, "kb"), Stats: rapid.Bool().Draw(t, "stats")}
	c.Def = sqlgen.Table(t, "t", 4, []string{dbh.IdxNone, dbh.IdxSkip})
	base := sqlgen.Profile{}
	if sess != nil && sess.ExclusionOn("null-in-indexed-column") {
		base.NoNullIndexed = true
		sess.Excluded("null-in-indexed-column")
	}
	if sess != nil && sess.ExclusionOn("sentinel-strings") {
		base.NoSentinelStr = true
		sess.Excluded("sentinel-strings")
	}
	if sess != nil && sess.ExclusionOn("long-indexed-varchar") {
		sess.Excluded("long-indexed-varchar")
	} else {
		base.VeryLongStr = true
	}
	nrows := 0
	switch rapid.IntRange(0, 5).Draw(t, "size") {
	case 0:
		nrows = rapid.IntRange(0, 3).Draw(t, "nrows")
	case 1, 2, 3:
		nrows = rapid.IntRange(4, 40).Draw(t, "nrows")
	default:
		nrows = rapid.IntRange(100, 300).Draw(t, "nrows")
	}
	for i := 0; i < nrows; i++ {
		c.Init = append(c.Init, sqlgen.Row(t, &c.Def, base))
	}
	ns := rapid.IntRange(1, 12).Draw(t, "nstmts")
	for i := 0; i < ns; i++ {
		var s dbh.Stmt
		switch rapid.IntRange(0, 9).Draw(t, "skind") {
		case 0, 1, 2, 3, 4, 5:
			s = sqlgen.Select(t, &c.Def, base)
		case 6:
			s = sqlgen.Insert(t, &c.Def, base)
		case 7, 8:
			s = sqlgen.Update(t, &c.Def, base)
		default:
			s = sqlgen.Delete(t, &c.Def, base)
		}
		c.Stmts = append(c.Stmts, s)
	}
	return c
}

const rule = "Case = (schema of 1-4 columns over int/float/varchar, SQL-created with skip-list indexes on every column or catalog-created with index kinds none/skip list (B-tree and hash are documented as not supported on the front end); 0-300 initial rows with duplicates, NULLs, boundary ints/floats, empty and long strings; optional statistics refresh; 1-12 statements: SELECT with * or a permuted column list, INSERT multi-row, UPDATE with 1-3 SET items in any order, DELETE; predicates of 1-6 comparisons =,<>,<,<=,>,>= joined by AND/OR incl. several redundant/overlapping/contradictory bounds on one column). Oracle: naive SQL model; every SELECT is run 3x as planned by the optimizer, once through ExecuteSQLRetValues when all constants have front-end literal forms, and once with a dead OR-branch (forces the sequential plan); after every DML the full table is compared. Non-trivial = the case contains a SELECT whose model answer is a non-empty proper subset of a non-empty table, or a DML statement that changes some but (for UPDATE/DELETE) not all rows."

var assumptions = []string{
	"comparison constants are type-correct, column on the left; integers in SQL text within [0,MaxInt32]; other values (negative, NULL, non-ASCII, quotes) enter through plan-level constant substitution after parsing",
	"'<NULL column> <> constant' may evaluate either way (SQL: unknown, engine evaluator: true): both model answers are accepted for SELECT, DML with an ambiguous effect is skipped and counted",
	"floats exclude NaN and +-Inf; B-tree varchar keys are at most 24 bytes (BTreeIndex limit); rows far below a page in size",
	"in-memory storage mode, background threads disabled (hook H2), one statement at a time",
}

func classesOf(st *stats, c *Case) []string {
	var cls []string
	for k := range st.classes {
		cls = append(cls, k)
	}
	if st.nulls {
		cls = append(cls, "table-has-null")
	}
	if st.multiPage {
		cls = append(cls, "multi-page-table")
	}
	if st.planLevel > 0 {
		cls = append(cls, "plan-level-constants")
	}
	if st.skippedNE > 0 {
		cls = append(cls, "dml-skipped-null-ne-ambiguity")
	}
	if c.Def.SQL {
		cls = append(cls, "sql-created-table")
	} else {
		cls = append(cls, "catalog-created-table")
	}
	if c.Stats {
		cls = append(cls, "with-statistics")
	}
	return cls
}

func TestSearch(t *testing.T) {
	s := vf.Open("C06")
	s.Rule, s.Assumptions = rule, assumptions
	defer func() { s.Flush(!t.Failed()) }()
	sess = s
	rapid.Check(t, func(rt *rapid.T) {
		c := genCase(rt)
		f, st := runCase(c)
		s.Count(c, st.nontrivial > 0, classesOf(st, c)...)
		if f != nil && strings.Contains(f.Class, "ClockReplacer).Victim") {
			// the pool (drawn from the minimum upwards) was too small for the plan the optimizer happened to choose (plan choice among equal
			// costs follows Go's map order): the engine panics by design when every frame is pinned - not a wrong answer, the case is skipped
			s.Class("pool-exhausted-by-design", 1)
			return
		}
		s.Judge(rt, c, f)
	})
}

func TestReplay(t *testing.T) {
	s := vf.Open("C06")
	s.Rule, s.Assumptions = rule, assumptions
	defer func() { s.Flush(true) }()
	s.Replay(func(raw json.RawMessage) *vf.Failure {
		var c Case
		if err := json.Unmarshal(raw, &c); err != nil {
			return vf.Failf("bad-case", "%v", err)
		}
		f, _ := runCase(&c)
		return f
	})
}

var _ = math.MaxInt32
