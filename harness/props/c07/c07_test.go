// C07 — Indexes agree with their table whenever no transaction is active.
package c07

import (
	"encoding/json"
	"testing"

	"pgregory.net/rapid"

	"verifharness/dbh"
	"verifharness/restarteng"
	"verifharness/sqlgen"
	"verifharness/vf"
)

const rule = "Case = history of 3-18 operations on a file-backed database with tables of every index kind (skip list via SQL and catalog, unique skip list, B-tree, hash; int/float/varchar columns): committed INSERT/UPDATE/DELETE (duplicate keys on the non-unique kinds, key-changing updates, relocating updates that keep the key), rolled-back transactions of 1-3 statements, clean restarts and crash restarts (files closed without flush, recovery). Oracle whenever no transaction is active (after every rolled-back transaction, sampled DML, every restart, and at the end): for every indexed column, looking up present and absent keys through an explicit index point-scan plan returns exactly the rows whose column holds the key, and for ordered kinds closed / half-open / full range scans through an explicit index range-scan plan return exactly the in-range rows once each; the table itself (sequential scan) equals the model. Non-trivial = the history contains a rolled-back transaction or a restart before an evaluation."

var assumptions = []string{
	"B-tree/hash/unique tables are modified only with statements their kinds document: unique keys, no UPDATE on hash-indexed tables, UPDATE/DELETE through the sequential plan",
	"NULL only in un-indexed columns and no sentinel strings while the corresponding known findings are listed",
	"background threads disabled (hook H2); one statement at a time",
}

var sess *vf.Session

func opts() restarteng.GenOpts {
	o := restarteng.GenOpts{Crash: true, AbortTxns: true, DupKeys: true, MaxTables: 3, MaxCols: 4, SpecialKind: []string{dbh.IdxUniqSkip, dbh.IdxBtree, dbh.IdxHash, dbh.IdxBtree, dbh.IdxHash}, Prof: sqlgen.Profile{MaxStr: 60}}
	if sess != nil && sess.ExclusionOn("null-in-indexed-column") {
		o.Prof.NoNullIndexed = true
	}
	if sess != nil && sess.ExclusionOn("btree-clean-restart-after-crash") {
		o.NoBtreeCleanAfterCrash = true
		o.OnExcluded = sess.Excluded
	}
	if sess != nil && sess.ExclusionOn("sentinel-strings") {
		o.Prof.NoSentinelStr = true
	}
	return o
}

func classes(st *restarteng.Stats) []string {
	var c []string
	for k := range st.Classes {
		c = append(c, k)
	}
	if st.WorkAfter {
		c = append(c, "work-after-reopen")
	}
	if st.Restarts > 1 {
		c = append(c, "several-restarts")
	}
	return c
}

func crashClass(st *restarteng.Stats) []string {
	var c []string
	if st.Crashes > 0 {
		c = append(c, "crash-restart")
	}
	if st.Restarts > 0 {
		c = append(c, "clean-restart")
	}
	if st.CreatedAfter {
		c = append(c, "table-created-after-restart")
	}
	return c
}

func TestSearch(t *testing.T) {
	s := vf.Open("C07")
	s.Rule, s.Assumptions = rule, assumptions
	sess = s
	defer func() { s.Flush(!t.Failed()) }()
	rapid.Check(t, func(rt *rapid.T) {
		c := restarteng.Gen(rt, opts())
		st := &restarteng.Stats{Classes: map[string]bool{}}
		f := restarteng.Run(c, false, st)
		s.Count(c, st.Classes["aborted-transaction"] || st.Restarts+st.Crashes > 0, append(classes(st), crashClass(st)...)...)
		s.Judge(rt, c, f)
	})
}

func TestReplay(t *testing.T) {
	s := vf.Open("C07")
	s.Rule, s.Assumptions = rule, assumptions
	defer func() { s.Flush(true) }()
	s.Replay(func(raw json.RawMessage) *vf.Failure {
		var c restarteng.Case
		if err := json.Unmarshal(raw, &c); err != nil {
			return vf.Failf("bad-case", "%v", err)
		}
		return restarteng.Run(&c, false, &restarteng.Stats{Classes: map[string]bool{}})
	})
}
