// C08 — Write-ahead discipline at the storage boundary (invariant over recorded I/O traces).
package c08

import (
	"encoding/json"
	"testing"

	"pgregory.net/rapid"

	"verifharness/crasheng"
	"verifharness/vf"
)

var profile = crasheng.Profile{AbortPct: 25, MaxTxns: 10, Checkpoint: 25, Bulk: 12, OpenMid: 10, Huge: 6}

const rule = "Case = generated history (as C01/C02: inserts of 8-1200 byte rows, in-place / relocating updates, deletes, statements that insert or enlarge 8-24 long rows at once (one open transaction dirties more pages than the pool holds: steal), commits, explicit aborts, forced checkpoints after commits and after aborts, pools of 12-100 frames so that evictions happen, CREATE TABLE included in the trace) executed on a recorded file-backed instance; the whole WritePage/WriteLog/GCLogFile trace with commit-return markers is checked after the run: (W1) every write of a user heap page (classified from NEWTABLEPAGE records; catalog heaps rooted at pages 0/1, index and temporary pages are skipped) carries an LSN <= the newest LSN contained in any log write before it; (W2) at the commit return of every writing transaction a COMMIT record with its transaction id is in the log written so far; (W3) after every log write the log parses (independent parser) into whole records of known types with size >= 20, increasing LSNs and per-transaction prevLSN chains. Non-trivial = the trace contains a user-heap page write whose LSN is newer than the log high-water mark before the most recent log write (the ordering mattered) or a commit of a writer."

var assumptions = []string{
	"single-goroutine executions (concurrent executions of the same monitor run inside the C19 workloads)",
	"page LSN is meaningful for heap pages only (index pages reuse the field as an update counter), so the monitor is restricted to pages named by NEWTABLEPAGE records",
	"'on stable storage' = contained in a WriteLog call that returned (the disk manager syncs the log file in WriteLog)",
}

func explore(h *crasheng.History) (*vf.Failure, *crasheng.WALStats) {
	ws := &crasheng.WALStats{}
	var out *vf.Failure
	g := vf.Guard(func() *vf.Failure {
		st := &crasheng.Stats{Classes: map[string]bool{}}
		run, f := crasheng.Execute(h, st)
		defer run.Cleanup()
		if f != nil {
			out = f
			return nil
		}
		out = crasheng.WALOfRun(run, ws)
		return nil
	})
	if g != nil {
		g.Class = "harness-or-engine-" + g.Class
		return g, ws
	}
	return out, ws
}

func TestSearch(t *testing.T) {
	s := vf.Open("C08")
	s.Rule, s.Assumptions = rule, assumptions
	defer func() { s.Flush(!t.Failed()) }()
	rapid.Check(t, func(rt *rapid.T) {
		h := crasheng.GenHistory(rt, profile)
		f, ws := explore(h)
		var cls []string
		if ws.OrderingMattered > 0 {
			cls = append(cls, "page-write-right-after-its-log-write")
		}
		if ws.WriterCommits > 0 {
			cls = append(cls, "writer-commit")
		}
		s.Count(h, ws.OrderingMattered > 0 || ws.WriterCommits > 0, cls...)
		s.Class("heap-page-writes-checked", int64(ws.HeapPageWrites))
		s.Class("writer-commits-checked", int64(ws.WriterCommits))
		s.Class("log-writes-checked", int64(ws.LogWrites))
		s.Judge(rt, h, f)
	})
}

func TestReplay(t *testing.T) {
	s := vf.Open("C08")
	s.Rule, s.Assumptions = rule, assumptions
	defer func() { s.Flush(true) }()
	s.Replay(func(raw json.RawMessage) *vf.Failure {
		var h crasheng.History
		if err := json.Unmarshal(raw, &h); err != nil {
			return vf.Failf("bad-case", "%v", err)
		}
		f, _ := explore(&h)
		return f
	})
}
