package c08

import (
	"fmt"
	"math/rand"
	"os"
	"strings"
	"sync"
	"sync/atomic"
	"testing"
	"time"

	"verifharness/crasheng"
	"verifharness/crashsim"
	"verifharness/dbh"
	"verifharness/vf"
)

// Concurrent executions: 4-8 goroutines run single- and multi-statement transactions on a recorded
// file-backed instance with a small pool while another goroutine forces checkpoints, with the log device slowed down by 0 / 2 / 5 ms per write (a log write counts as stable when its call has returned); the same trace
// monitor (W1-W3) is applied to the recorded trace. Commit-return markers carry the engine's txn id.
type ConcCase struct {
	Clients int   `json:"clients"`
	Ops     int   `json:"ops"`
	KB      int   `json:"kb"`
	Seed    int64 `json:"seed"`
	// LogDelayUS: the recorder keeps every log write "in progress" for this long (a slow log device), so that page
	// writes of other goroutines can fall into the window
	LogDelayUS int `json:"log_delay_us,omitempty"`
	Bulk       int `json:"bulk,omitempty"` // extra ~900-byte rows in u: the working set exceeds the pool, dirty pages are evicted by the clients themselves
}

func runConc(c *ConcCase, ws *crasheng.WALStats) *vf.Failure {
	dbh.NoBackground(true)
	dir := dbh.TempDir("c08c")
	defer os.RemoveAll(dir)
	name := dir + "/db"
	rec := crashsim.Install(name)
	db := dbh.Open(name, c.KB, true)
	crashsim.Uninstall()
	defer func() { func() { defer func() { recover() }(); db.Stop() }() }()
	defer func() { rec.LogDelay = 0 }()
	if _, err := db.FrontDoor("CREATE TABLE t(id int, g int, v int);"); err != nil {
		return vf.Failf("create-error", "%v", err)
	}
	if err := db.CreateTable(&dbh.TableDef{Name: "u", Cols: []dbh.Col{{Name: "id", T: "i", Idx: dbh.IdxSkip}, {Name: "s", T: "s", Idx: dbh.IdxNone}}}); err != nil {
		return vf.Failf("create-error", "%v", err)
	}
	for i := 0; i < 30; i++ {
		db.FrontDoor(fmt.Sprintf("INSERT INTO t(id, g, v) VALUES (%d, %d, 0);", i, i%3))
		db.FrontDoor(fmt.Sprintf("INSERT INTO u(id, s) VALUES (%d, '%s');", i, strings.Repeat("p", 300+i)))
	}
	for i := 0; i < c.Bulk; i++ {
		db.FrontDoor(fmt.Sprintf("INSERT INTO u(id, s) VALUES (%d, '%s');", 30+i, strings.Repeat("b", 880+i%40)))
	}
	uRows := 30 + c.Bulk
	rec.LogDelay = time.Duration(c.LogDelayUS) * time.Microsecond
	var mu sync.Mutex
	var commits []crasheng.CommitPoint
	var wg sync.WaitGroup
	var stop int32
	var nextID int64 = 1000
	for w := 0; w < c.Clients; w++ {
		wg.Add(1)
		go func(w int) {
			defer wg.Done()
			defer func() { recover() }()
			rng := rand.New(rand.NewSource(c.Seed*17 + int64(w)))
			for n := 0; n < c.Ops; n++ {
				t := db.Begin()
				id := int32(t.T.GetTransactionID())
				writes := 0
				for k := 0; k < 1+rng.Intn(3) && !t.Done; k++ {
					var q string
					switch rng.Intn(5) {
					case 0:
						q = fmt.Sprintf("UPDATE t SET v = %d WHERE g = %d;", rng.Intn(100000), rng.Intn(3))
					case 1:
						q = fmt.Sprintf("INSERT INTO u(id, s) VALUES (%d, '%s');", atomic.AddInt64(&nextID, 1), strings.Repeat("n", 200+rng.Intn(900)))
					case 2:
						q = fmt.Sprintf("UPDATE u SET s = '%s' WHERE id = %d;", strings.Repeat("q", 100+rng.Intn(1000)), rng.Intn(uRows))
					case 3:
						q = fmt.Sprintf("DELETE FROM u WHERE id = %d;", 1000+rng.Intn(40))
					default:
						q = fmt.Sprintf("SELECT id, v FROM t WHERE g = %d;", rng.Intn(3))
						if c.Bulk > 0 && rng.Intn(2) == 0 {
							a := rng.Intn(uRows)
							q = fmt.Sprintf("SELECT id FROM u WHERE id >= %d AND id <= %d;", a, a+20)
						}
					}
					if _, err := t.ExecSQL(q, nil); err == nil && !t.Done && !strings.HasPrefix(q, "SELECT") {
						writes++
					}
				}
				if t.Done {
					continue
				}
				if rng.Intn(5) == 0 {
					t.Abort()
					continue
				}
				writes = len(t.T.GetWriteSet()) // "writing transaction" = its write set is not empty when it commits
				t.Commit()
				idx := rec.Mark(fmt.Sprintf("commit-return txn=%d", id))
				if writes > 0 {
					mu.Lock()
					commits = append(commits, crasheng.CommitPoint{EventIdx: idx, TxnID: id})
					mu.Unlock()
				}
			}
		}(w)
	}
	var bg sync.WaitGroup
	bg.Add(1)
	go func() {
		defer bg.Done()
		for atomic.LoadInt32(&stop) == 0 {
			db.Checkpoint()
			time.Sleep(2 * time.Millisecond)
		}
	}()
	done := make(chan struct{})
	go func() { wg.Wait(); close(done) }()
	if !vf.WaitScheduled(done, 120*time.Second) {
		atomic.StoreInt32(&stop, 1)
		return vf.Failf("workload-hang", "concurrent workload did not finish within 120 s")
	}
	atomic.StoreInt32(&stop, 1)
	bg.Wait()
	db.Stop()
	// engine txn ids are reused after every restart only; inside one life they are unique, so W2 can match by id.
	// A writer whose statements matched no row appends no data record but still logs COMMIT; that is fine for W2.
	return crasheng.CheckWAL(rec.Events, rec.BaseLG, commits, ws)
}

func TestConcurrent(t *testing.T) {
	s := vf.Open("C08")
	s.Rule = "Case (concurrent) = 4-8 goroutines running 1-3-statement transactions (multi-row updates, inserts of 200-1100 byte rows, relocating updates, deletes, reads; commit or abort) on a recorded file-backed instance with a pool of 40-60 frames (in two thirds of the runs the table u holds 160-240 extra long rows, so that clients evict dirty pages) while another goroutine forces checkpoints, with the log device slowed down by 0 / 2 / 5 ms per write (a log write counts as stable when its call has returned); oracle W1-W3 on the recorded trace, W2 at every commit return of a writer (marker carries the engine transaction id). Non-trivial = as above."
	s.Assumptions = assumptions
	defer func() { s.Flush(!t.Failed()) }()
	rng := rand.New(rand.NewSource(s.Seed*7 + int64(s.Shard)))
	runs := s.Pick(10, 60)
	for i := 0; i < runs; i++ {
		c := &ConcCase{Clients: 4 + rng.Intn(5), Ops: s.Pick(40, 120), KB: 160 + 40*rng.Intn(3), Seed: rng.Int63(), LogDelayUS: []int{0, 2000, 5000}[rng.Intn(3)], Bulk: []int{0, 200, 240}[rng.Intn(3)]}
		if i%2 == 1 {
			// the tightest setting: few clients, a pool barely above what they pin, a working set several times the pool and a
			// slow log device - pages dirtied a moment ago are evicted while another client's log write is still in progress
			c.Clients, c.KB, c.Bulk, c.LogDelayUS = 3+rng.Intn(2), 96+16*rng.Intn(2), 240, 3000+2000*rng.Intn(2)
		}
		ws := &crasheng.WALStats{}
		f, _ := vf.WithTimeout(200*time.Second, func() *vf.Failure { return runConc(c, ws) })
		s.Count(c, ws.WriterCommits > 0 && ws.HeapPageWrites > 0, "concurrent")
		s.Class("concurrent-heap-page-writes-checked", int64(ws.HeapPageWrites))
		s.Class("concurrent-writer-commits-checked", int64(ws.WriterCommits))
		if f != nil && f.Class == "workload-hang" {
			s.Inconclusive(f.Msg)
			return // stuck goroutines stay behind; further runs would only wait for their time limits
		}
		if f != nil {
			s.Judge(t, c, f)
			return
		}
	}
}
