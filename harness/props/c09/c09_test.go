// C09 — A clean shutdown and reopen changes nothing observable.
package c09

import (
	"encoding/json"
	"testing"

	"pgregory.net/rapid"

	"verifharness/dbh"
	"verifharness/restarteng"
	"verifharness/sqlgen"
	"verifharness/vf"
)

const rule = "Case = history of 3-18 operations on a file-backed database: CREATE TABLE (SQL-created with skip-list indexes on every column; catalog-created with none/skip-list per column; catalog-created with a unique-skip-list, B-tree or hash index on an integer key column), INSERT/UPDATE/DELETE, clean Shutdown()+reopen cycles interleaved with more work; pool from the minimum to +100 frames. Oracle: before every shutdown, after every reopen and at the end, a battery per table is compared with the SQL model: sequential scan, schema (column count/order/types), per indexed column point queries on present and absent keys through an explicit index point-scan plan and (skip-list/none tables) through the SQL optimizer path, and for ordered index kinds closed, half-open and full range scans through an explicit index range-scan plan. Non-trivial = at some shutdown a table with rows and an indexed column exists."

var assumptions = []string{
	"B-tree/hash/unique tables are modified only with statements their kinds document: unique keys, no UPDATE on hash-indexed tables, UPDATE/DELETE through the sequential plan",
	"NULL only in un-indexed columns and no sentinel strings while the corresponding known findings are listed",
	"background threads disabled (hook H2); one statement at a time",
}

var sess *vf.Session

func opts() restarteng.GenOpts {
	o := restarteng.GenOpts{MaxTables: 4, MaxCols: 4, SpecialKind: []string{dbh.IdxUniqSkip, dbh.IdxBtree, dbh.IdxHash}, Prof: sqlgen.Profile{MaxStr: 60}, BigJoinPct: 4, EmptyFirstPct: 4, BigLogPct: 3}
	if sess != nil && sess.Tier == "thorough" {
		o.ChurnPct = 2 // (too expensive for the quick tier) a helper table is filled and thinned out: index nodes run empty, page ids are recycled
	}
	if sess != nil && sess.ExclusionOn("null-in-indexed-column") {
		o.Prof.NoNullIndexed = true
	}
	if sess != nil && sess.ExclusionOn("sentinel-strings") {
		o.Prof.NoSentinelStr = true
	}
	return o
}

func classes(st *restarteng.Stats) []string {
	var c []string
	for k := range st.Classes {
		c = append(c, k)
	}
	if st.WorkAfter {
		c = append(c, "work-after-reopen")
	}
	if st.Restarts > 1 {
		c = append(c, "several-restarts")
	}
	return c
}

func TestSearch(t *testing.T) {
	s := vf.Open("C09")
	s.Rule, s.Assumptions = rule, assumptions
	sess = s
	defer func() { s.Flush(!t.Failed()) }()
	rapid.Check(t, func(rt *rapid.T) {
		c := restarteng.Gen(rt, opts())
		st := &restarteng.Stats{Classes: map[string]bool{}}
		f := restarteng.Run(c, false, st)
		s.Count(c, st.TablesAtRest > 0 && st.Restarts > 0, classes(st)...)
		s.Judge(rt, c, f)
	})
}

func TestReplay(t *testing.T) {
	s := vf.Open("C09")
	s.Rule, s.Assumptions = rule, assumptions
	defer func() { s.Flush(true) }()
	s.Replay(func(raw json.RawMessage) *vf.Failure {
		var c restarteng.Case
		if err := json.Unmarshal(raw, &c); err != nil {
			return vf.Failf("bad-case", "%v", err)
		}
		return restarteng.Run(&c, false, &restarteng.Stats{Classes: map[string]bool{}})
	})
}
