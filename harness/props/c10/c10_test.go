// C10 — Tables keep their identity, schema and data across restarts.
package c10

import (
	"encoding/json"
	"testing"

	"pgregory.net/rapid"

	"verifharness/dbh"
	"verifharness/restarteng"
	"verifharness/sqlgen"
	"verifharness/vf"
)

const rule = "Case = history of 3-18 operations on a file-backed database: CREATE TABLE of up to 8 tables with 1-6 columns of any supported type (in 12% of the histories first 9-13 six-column tables with names of different lengths, so that the columns catalog spills to a second heap page) (SQL-created; catalog-created with none/skip-list; catalog-created with a unique-skip-list index on the key column (B-tree / hash tables across crash restarts are C07's subject); the same column names recur in different tables), INSERT/UPDATE/DELETE, clean restarts (Shutdown+reopen) and crash restarts (files closed without any flush, then recovery). Oracle after every restart and at the end: every created table is reachable under its name with its own schema (column count, order, types) and exactly the model rows through sequential scan and through every index (point / range plans, SQL optimizer path); rows inserted into one table never show up in another; catalog objects of distinct tables have distinct ids and distinct first heap pages. Non-trivial = at least two non-empty user tables existed at a restart and a table was created after a restart."

var assumptions = []string{
	"B-tree/hash/unique tables are modified only with statements their kinds document: unique keys, no UPDATE on hash-indexed tables, UPDATE/DELETE through the sequential plan",
	"NULL only in un-indexed columns and no sentinel strings while the corresponding known findings are listed",
	"background threads disabled (hook H2); one statement at a time",
}

var sess *vf.Session

func opts() restarteng.GenOpts {
	o := restarteng.GenOpts{Crash: true, MaxTables: 8, MaxCols: 6, SpecialKind: []string{dbh.IdxUniqSkip}, Prof: sqlgen.Profile{MaxStr: 60}, ManyTablesPct: 12, BigJoinPct: 4, EmptyFirstPct: 3, BigLogPct: 2}
	if sess != nil && sess.Tier == "thorough" {
		o.ChurnPct = 2 // (too expensive for the quick tier) a helper table is filled and thinned out: index nodes run empty, page ids are recycled
	}
	if sess != nil && sess.ExclusionOn("null-in-indexed-column") {
		o.Prof.NoNullIndexed = true
	}
	if sess != nil && sess.ExclusionOn("sentinel-strings") {
		o.Prof.NoSentinelStr = true
	}
	return o
}

func classes(st *restarteng.Stats) []string {
	var c []string
	for k := range st.Classes {
		c = append(c, k)
	}
	if st.WorkAfter {
		c = append(c, "work-after-reopen")
	}
	if st.Restarts > 1 {
		c = append(c, "several-restarts")
	}
	return c
}

func crashClass(st *restarteng.Stats) []string {
	var c []string
	if st.Crashes > 0 {
		c = append(c, "crash-restart")
	}
	if st.Restarts > 0 {
		c = append(c, "clean-restart")
	}
	if st.CreatedAfter {
		c = append(c, "table-created-after-restart")
	}
	return c
}

func TestSearch(t *testing.T) {
	s := vf.Open("C10")
	s.Rule, s.Assumptions = rule, assumptions
	sess = s
	defer func() { s.Flush(!t.Failed()) }()
	rapid.Check(t, func(rt *rapid.T) {
		c := restarteng.Gen(rt, opts())
		st := &restarteng.Stats{Classes: map[string]bool{}}
		f := restarteng.Run(c, true, st)
		s.Count(c, st.TablesAtRest >= 2 && st.CreatedAfter, append(classes(st), crashClass(st)...)...)
		s.Judge(rt, c, f)
	})
}

func TestReplay(t *testing.T) {
	s := vf.Open("C10")
	s.Rule, s.Assumptions = rule, assumptions
	defer func() { s.Flush(true) }()
	s.Replay(func(raw json.RawMessage) *vf.Failure {
		var c restarteng.Case
		if err := json.Unmarshal(raw, &c); err != nil {
			return vf.Failf("bad-case", "%v", err)
		}
		return restarteng.Run(&c, true, &restarteng.Stats{Classes: map[string]bool{}})
	})
}
