// C11 — Join answers equal the naive evaluation whatever plan is chosen.
package c11

import (
	"encoding/json"
	"fmt"
	"strings"
	"testing"
	"time"

	"pgregory.net/rapid"

	"verifharness/dbh"
	"verifharness/sqlgen"
	"verifharness/vf"
)

type TableLoad struct {
	Rows      []dbh.Row `json:"rows"`
	StaleLow  int       `json:"stale_low"`  // >0: statistics are first computed when only this many rows are loaded
	StaleHigh int       `json:"stale_high"` // >0: statistics are later computed while this many extra rows exist, which are then deleted
}

type Case struct {
	Defs    []dbh.TableDef  `json:"defs"`
	Loads   []TableLoad     `json:"loads"`
	KB      int             `json:"kb"`
	Queries []dbh.JoinQuery `json:"queries"`
}

type stats struct {
	nontrivial int
	classes    map[string]bool
}

func runCase(c *Case) (*vf.Failure, *stats) {
	st := &stats{classes: map[string]bool{}}
	f, _ := vf.WithTimeout(90*time.Second, func() *vf.Failure { return run(c, st) })
	return f, st
}

func joinAlgos(shape []string) string {
	var a []string
	for _, s := range shape {
		if strings.HasSuffix(s, "Join") {
			a = append(a, s)
		}
	}
	if len(a) == 0 {
		return "no-join-node"
	}
	return strings.Join(a, "+")
}

func run(c *Case, st *stats) *vf.Failure {
	dbh.NoBackground(true)
	db := dbh.Open("c11", c.KB, false)
	defer db.Stop()
	m := dbh.NewMDB()
	names := func(def *dbh.TableDef) []string {
		n := make([]string, len(def.Cols))
		for i, cl := range def.Cols {
			n[i] = cl.Name
		}
		return n
	}
	insert := func(def *dbh.TableDef, rows []dbh.Row) *vf.Failure {
		for i := 0; i < len(rows); i += 20 {
			j := i + 20
			if j > len(rows) {
				j = len(rows)
			}
			ins := &dbh.Stmt{Kind: "insert", Table: def.Name, Cols: names(def), Rows: rows[i:j], Plan: true}
			if _, err := db.Auto(ins); err != nil {
				return vf.Failf("load-error", "loading %s: %v", def.Name, err)
			}
			m.Apply(ins, dbh.EvalMode{})
		}
		return nil
	}
	updateStats := func(name string) *vf.Failure {
		tm := db.Cat().GetTableByName(name)
		t := db.Begin()
		err := tm.GetStatistics().Update(tm, t.T)
		t.Commit()
		if err != nil {
			return vf.Failf("stats-error", "%v", err)
		}
		return nil
	}
	check := func(state string) *vf.Failure {
		for qi := range c.Queries {
			q := &c.Queries[qi]
			wantA := m.Join(q, dbh.EvalMode{NullNE: true})
			wantB := m.Join(q, dbh.EvalMode{NullNE: false})
			cross := 1
			for _, tn := range q.Tables {
				cross *= len(m.Tables[tn].Rows)
			}
			if len(wantA) > 0 && len(wantA) < cross {
				st.nontrivial++
			}
			for rep := 0; rep < 3; rep++ {
				t := db.Begin()
				plan, shape, err := t.PlanJoin(q)
				if plan == nil {
					if !t.Done {
						t.Commit()
					}
					return vf.Failf("plan-error", "[%s] %s: %v", state, q, err)
				}
				algo := joinAlgos(shape)
				st.classes["algo:"+algo] = true
				st.classes["stats:"+state] = true
				rows, err := t.RunPlan(plan)
				if !t.Done {
					t.Commit()
				}
				if err != nil {
					return vf.Failf("join-error", "[%s] %s: %v (plan %v)", state, q, err, shape)
				}
				if d := dbh.MultisetDiff(rows, wantA); d != "" {
					if d2 := dbh.MultisetDiff(rows, wantB); d2 != "" {
						return vf.Failf("join-mismatch:"+algo, "[statistics %s] %s: %s (plan %v)", state, q, d, shape)
					}
				}
			}
			if !q.NeedsPlan() {
				rows, err := db.FrontDoor(q.SQL(false))
				if err != nil {
					return vf.Failf("join-error", "[%s] %s via ExecuteSQLRetValues: %v", state, q, err)
				}
				if d := dbh.MultisetDiff(rows, wantA); d != "" {
					if d2 := dbh.MultisetDiff(rows, wantB); d2 != "" {
						return vf.Failf("join-mismatch:frontdoor", "[statistics %s] %s: %s", state, q, d)
					}
				}
			}
		}
		return nil
	}

	for i := range c.Defs {
		if err := db.CreateTable(&c.Defs[i]); err != nil {
			return vf.Failf("create-error", "%v", err)
		}
		m.Create(&c.Defs[i])
	}
	// phase 1: partial load, statistics for the stale-low tables, rest of the load
	for i := range c.Defs {
		l := c.Loads[i]
		n := l.StaleLow
		if n > len(l.Rows) {
			n = len(l.Rows)
		}
		if f := insert(&c.Defs[i], l.Rows[:n]); f != nil {
			return f
		}
		if l.StaleLow > 0 {
			if f := updateStats(c.Defs[i].Name); f != nil {
				return f
			}
		}
		if f := insert(&c.Defs[i], l.Rows[n:]); f != nil {
			return f
		}
	}
	if f := check("none/stale-low"); f != nil {
		return f
	}
	// phase 2: fresh statistics everywhere
	for i := range c.Defs {
		if f := updateStats(c.Defs[i].Name); f != nil {
			return f
		}
	}
	if f := check("fresh"); f != nil {
		return f
	}
	// phase 3: stale-high: statistics computed while extra rows exist that are then deleted
	any := false
	for i := range c.Defs {
		l := c.Loads[i]
		if l.StaleHigh == 0 {
			continue
		}
		any = true
		def := &c.Defs[i]
		var extra []dbh.Row
		for e := 0; e < l.StaleHigh; e++ {
			r := make(dbh.Row, len(def.Cols))
			for ci, cl := range def.Cols {
				switch {
				case cl.Name == "v":
					r[ci] = dbh.IntV(500000 + int32(e))
				case cl.T == "i":
					r[ci] = dbh.IntV(int32(e % 7))
				case cl.T == "f":
					r[ci] = dbh.FloatV(0.5)
				default:
					r[ci] = dbh.StrV("extra")
				}
			}
			extra = append(extra, r)
		}
		if f := insert(def, extra); f != nil {
			return f
		}
		if f := updateStats(def.Name); f != nil {
			return f
		}
		del := &dbh.Stmt{Kind: "delete", Table: def.Name, Where: dbh.Leaf("v", ">=", dbh.IntV(500000))}
		if _, err := db.Auto(del); err != nil {
			return vf.Failf("load-error", "deleting extra rows of %s: %v", def.Name, err)
		}
		m.Apply(del, dbh.EvalMode{})
	}
	if any {
		if f := check("stale-high"); f != nil {
			return f
		}
	}
	return nil
}

var sess *vf.Session

// genPressureCase: a small table joined with a table several times larger than the pool, whose matching rows come last,
// in a pool barely above what the indexes pin: temporary pages of the join are evicted and read back while it runs.
func genPressureCase(t *rapid.T) *Case {
	c := &Case{}
	c.Defs = []dbh.TableDef{
		{Name: "a", Cols: []dbh.Col{{Name: "k", T: "i", Idx: rapid.SampledFrom([]string{dbh.IdxNone, dbh.IdxSkip}).Draw(t, "aidx")}, {Name: "v", T: "i", Idx: dbh.IdxNone}}},
		{Name: "b", Cols: []dbh.Col{{Name: "k", T: "i", Idx: dbh.IdxNone}, {Name: "v", T: "i", Idx: dbh.IdxNone}, {Name: "s", T: "s", Idx: dbh.IdxNone}}},
	}
	nSmall := rapid.IntRange(3, 8).Draw(t, "nsmall")
	nBig := rapid.SampledFrom([]int{200, 400, 600}).Draw(t, "nbig")
	var la, lb TableLoad
	for i := 0; i < nSmall; i++ {
		la.Rows = append(la.Rows, dbh.Row{dbh.IntV(int32(100 + i)), dbh.IntV(int32(i))})
	}
	for i := 0; i < nBig; i++ {
		lb.Rows = append(lb.Rows, dbh.Row{dbh.IntV(int32(i % 7)), dbh.IntV(int32(1000 + i)), dbh.StrV(strings.Repeat("w", 280))})
	}
	for i := 0; i < nSmall; i++ { // the partners come last
		lb.Rows = append(lb.Rows, dbh.Row{dbh.IntV(int32(100 + i)), dbh.IntV(int32(5000 + i)), dbh.StrV("m")})
	}
	c.Loads = []TableLoad{la, lb}
	nIdx := 0
	if c.Defs[0].Cols[0].Idx == dbh.IdxSkip {
		nIdx = 1
	}
	c.KB = 4 * (3*nIdx + 10 + rapid.IntRange(0, 12).Draw(t, "spare"))
	cond := []dbh.JoinCond{{L: dbh.ColRef{T: "a", C: "k"}, R: dbh.ColRef{T: "b", C: "k"}}}
	c.Queries = []dbh.JoinQuery{{Tables: []string{"a", "b"}, Conds: cond}, {Tables: []string{"b", "a"}, Conds: cond, Cols: []dbh.ColRef{{T: "b", C: "v"}, {T: "a", C: "v"}}}}
	return c
}

func genCase(t *rapid.T) *Case {
	if rapid.IntRange(0, 7).Draw(t, "pressure") == 0 {
		return genPressureCase(t)
	}
	c := &Case{KB: rapid.SampledFrom([]int{400, 1000}).Draw(t, "kb")}
	n := rapid.SampledFrom([]int{2, 2, 2, 3}).Draw(t, "ntables")
	c.Defs = sqlgen.JoinTables(t, n)
	prof := sqlgen.Profile{}
	if sess != nil && sess.ExclusionOn("null-in-indexed-column") {
		prof.NoNullIndexed = true
		sess.Excluded("null-in-indexed-column")
	}
	payload := int32(0)
	for i := range c.Defs {
		size := rapid.SampledFrom([]int{0, 1, 3, 8, 20, 60}).Draw(t, "size")
		var l TableLoad
		for r := 0; r < size; r++ {
			payload++
			l.Rows = append(l.Rows, sqlgen.JoinRow(t, &c.Defs[i], prof, payload))
		}
		switch rapid.IntRange(0, 3).Draw(t, "stale") {
		case 1:
			l.StaleLow = rapid.IntRange(1, 3).Draw(t, "slow")
		case 2:
			l.StaleHigh = rapid.SampledFrom([]int{30, 120}).Draw(t, "shigh")
		}
		c.Loads = append(c.Loads, l)
	}
	nq := rapid.IntRange(1, 4).Draw(t, "nq")
	for i := 0; i < nq; i++ {
		c.Queries = append(c.Queries, sqlgen.JoinQ(t, c.Defs))
	}
	return c
}

const rule = "Case = (2-3 tables a,b,c with small-domain join keys k/k2 incl. duplicates, missing keys and NULLs, payload and string columns; SQL-created (skip-list index on every column) or catalog-created with index kinds none/skip list; 0-60 rows each; per table a statistics state: none, stale-low (computed when 1-3 rows were loaded), fresh, stale-high (computed while 30/120 extra rows existed that are then deleted); 1-4 queries: a JOIN b ON x=y [WHERE filters] or comma joins with equality conditions in WHERE (2 tables, 3-table chain and star), 0-2 conjunctive filters, * or 1-4 qualified select columns). One case in eight instead joins a 3-8 row table with a 200-600 row table of wide rows whose partners come last, in a pool barely above the pinned frames (buffer pressure while the join runs). Every query is planned and run 3x under each statistics phase and once through ExecuteSQLRetValues; the plan's join algorithm is recorded as a class. Oracle: naive nested-loop evaluation over the model rows (multiset, column order). Non-trivial = model answer non-empty and smaller than the cross product."

var assumptions = []string{
	"equality join conditions between integer key columns with qualified names; B-tree/hash index kinds are excluded (not supported on the front end)",
	"NULL join keys never match (SQL semantics; the hash join implements the same)",
	"in-memory storage mode, background threads disabled (hook H2)",
}

func TestSearch(t *testing.T) {
	s := vf.Open("C11")
	s.Rule, s.Assumptions = rule, assumptions
	sess = s
	defer func() { s.Flush(!t.Failed()) }()
	rapid.Check(t, func(rt *rapid.T) {
		c := genCase(rt)
		f, st := runCase(c)
		var cls []string
		for k := range st.classes {
			cls = append(cls, k)
		}
		cls = append(cls, fmt.Sprintf("tables:%d", len(c.Defs)))
		s.Count(c, st.nontrivial > 0, cls...)
		s.Judge(rt, c, f)
	})
}

func TestReplay(t *testing.T) {
	s := vf.Open("C11")
	s.Rule, s.Assumptions = rule, assumptions
	defer func() { s.Flush(true) }()
	s.Replay(func(raw json.RawMessage) *vf.Failure {
		var c Case
		if err := json.Unmarshal(raw, &c); err != nil {
			return vf.Failf("bad-case", "%v", err)
		}
		f, _ := runCase(&c)
		return f
	})
}
