// C12 — Concurrent SQL calls are answered once, atomically and in a serial order.
// Real goroutines through the public SamehadaDB.ExecuteSQL; recorded histories are checked for
// atomic visibility of multi-row updates, linearizability (porcupine) and exactly-once effects.
package c12

import (
	"encoding/json"
	"fmt"
	"math/rand"
	"os"
	"runtime"
	"sort"
	"strconv"
	"strings"
	"sync"
	"sync/atomic"
	"testing"
	"time"

	"github.com/anishathalye/porcupine"

	"verifharness/dbh"
	"verifharness/vf"
)

type Run struct {
	Family   string `json:"family"` // A atomic visibility | B linearizability | C exactly-once
	Clients  int    `json:"clients"`
	OpsPer   int    `json:"ops_per_client"`
	Rows     int    `json:"rows"`
	Procs    int    `json:"gomaxprocs"`
	File     bool   `json:"file_mode"`
	SQLTable bool   `json:"sql_created"`
	Seed     int64  `json:"seed"`
	Pad      int    `json:"pad,omitempty"`     // bytes of an extra varchar column: the table spans many pages
	KB       int    `json:"kb,omitempty"`      // pool size (default 800 KB = 200 frames); small values make the clients evict each other's pages
	Grow     bool   `json:"grow,omitempty"`    // with Pad: every UPDATE also rewrites the payload column with a string of another length
	NoIdx    bool   `json:"no_idx,omitempty"`  // no index at all (no index pages pinned for good: the pool can be very small)
	SeqPct   int    `json:"seq_pct,omitempty"` // share of group statements whose predicate carries "OR id = 7777777" (never true): forces the sequential-scan path
	// History of a failing run (for replay by the history checker)
	History []HOp `json:"history,omitempty"`
}

type HOp struct {
	Client int     `json:"c"`
	SQL    string  `json:"sql"`
	Kind   string  `json:"k"` // r | w | ins
	Col    int     `json:"col,omitempty"`
	Grp    int     `json:"g,omitempty"`
	Val    int     `json:"v,omitempty"`
	Call   int64   `json:"call"`
	Ret    int64   `json:"ret"`
	Err    string  `json:"err,omitempty"`
	Rows   [][]int `json:"rows,omitempty"` // (id, v) pairs returned
}

type stats struct {
	overlapWrites int
	calls         int
}

var clock int64

func now() int64 { return atomic.AddInt64(&clock, 1) }

// ---- workload ---------------------------------------------------------------------------------------

// table t(id, g1, g2, v): g1 = id % 2, g2 = id / 2 (overlapping groupings)
func setup(r *Run) (*dbh.DB, string, *vf.Failure) {
	dbh.NoBackground(true)
	dir := ""
	var db *dbh.DB
	kb := 800
	if r.KB > 0 {
		kb = r.KB
	}
	if r.File {
		dir = dbh.TempDir("c12")
		db = dbh.Open(dir+"/db", kb, true)
	} else {
		db = dbh.Open("c12", kb, false)
	}
	def := &dbh.TableDef{Name: "t", SQL: r.SQLTable, Cols: []dbh.Col{{Name: "id", T: "i", Idx: dbh.IdxSkip}, {Name: "g1", T: "i", Idx: dbh.IdxSkip}, {Name: "g2", T: "i", Idx: dbh.IdxSkip}, {Name: "v", T: "i", Idx: dbh.IdxNone}}}
	if r.Pad > 0 {
		def.Cols = append(def.Cols, dbh.Col{Name: "p", T: "s", Idx: dbh.IdxNone})
	}
	if r.NoIdx {
		for i := range def.Cols {
			def.Cols[i].Idx = dbh.IdxNone
		}
	}
	if err := db.CreateTable(def); err != nil {
		return db, dir, vf.Failf("create-error", "%v", err)
	}
	for i := 0; i < r.Rows; i++ {
		q := fmt.Sprintf("INSERT INTO t(id, g1, g2, v) VALUES (%d, %d, %d, 0);", i, i%2, i/2)
		if r.Pad > 0 {
			q = fmt.Sprintf("INSERT INTO t(id, g1, g2, v, p) VALUES (%d, %d, %d, 0, '%s');", i, i%2, i/2, strings.Repeat("p", r.Pad))
		}
		if _, err := db.FrontDoor(q); err != nil {
			return db, dir, vf.Failf("load-error", "%v", err)
		}
	}
	return db, dir, nil
}

func toInt(x interface{}) (int, bool) {
	switch v := x.(type) {
	case int32:
		return int(v), true
	case int:
		return v, true
	}
	return 0, false
}

func execute(r *Run, st *stats) (*vf.Failure, []HOp) {
	old := runtime.GOMAXPROCS(r.Procs)
	defer runtime.GOMAXPROCS(old)
	db, dir, f := setup(r)
	defer func() {
		func() { defer func() { recover() }(); db.Stop() }()
		if dir != "" {
			os.RemoveAll(dir)
		}
	}()
	if f != nil {
		return f, nil
	}
	var mu sync.Mutex
	var hist []HOp
	var valCounter int64
	var idCounter int64 = 1000
	var completed int64
	var wg sync.WaitGroup
	for c := 0; c < r.Clients; c++ {
		wg.Add(1)
		go func(c int) {
			defer wg.Done()
			rng := rand.New(rand.NewSource(r.Seed*1009 + int64(c)))
			for n := 0; n < r.OpsPer; n++ {
				op := HOp{Client: c}
				switch r.Family {
				case "A", "B":
					op.Col = 1 + rng.Intn(2)
					if r.Family == "A" {
						op.Col = 1 // disjoint groups only: every answer must show one value per group
					}
					if op.Col == 1 {
						op.Grp = rng.Intn(2)
					} else {
						op.Grp = rng.Intn((r.Rows + 1) / 2)
					}
					or := ""
					if r.SeqPct > 0 && rng.Intn(100) < r.SeqPct {
						or = " OR id = 7777777"
					}
					if rng.Intn(2) == 0 {
						op.Kind = "w"
						op.Val = int(atomic.AddInt64(&valCounter, 1))
						op.SQL = fmt.Sprintf("UPDATE t SET v = %d WHERE g%d = %d%s;", op.Val, op.Col, op.Grp, or)
						if r.Grow && r.Pad > 0 {
							// the payload column changes its length with every update: rows move to other pages, and a statement that is
							// aborted by a lock conflict half way has moves to take back before it is retried
							op.SQL = fmt.Sprintf("UPDATE t SET v = %d, p = '%s' WHERE g%d = %d%s;", op.Val, strings.Repeat("q", r.Pad+40*(op.Val%7)), op.Col, op.Grp, or)
						}
					} else {
						op.Kind = "r"
						op.SQL = fmt.Sprintf("SELECT id, v FROM t WHERE g%d = %d%s;", op.Col, op.Grp, or)
					}
				default: // C
					if rng.Intn(2) == 0 {
						op.Kind = "ins"
						op.Val = int(atomic.AddInt64(&idCounter, 1))
						op.SQL = fmt.Sprintf("INSERT INTO t(id, g1, g2, v) VALUES (%d, 7, 7, %d);", op.Val, op.Val)
					} else {
						op.Kind = "w"
						op.Grp = rng.Intn(r.Rows) // single row by id, heavy conflict
						op.Val = int(atomic.AddInt64(&valCounter, 1))
						op.SQL = fmt.Sprintf("UPDATE t SET v = %d WHERE id = %d;", op.Val, op.Grp)
					}
				}
				op.Call = now()
				err, rows := db.S.ExecuteSQL(op.SQL)
				op.Ret = now()
				atomic.AddInt64(&completed, 1)
				if err != nil {
					op.Err = err.Error()
				}
				for _, row := range rows {
					var ir []int
					for _, x := range row {
						if v, ok := toInt(x); ok {
							ir = append(ir, v)
						} else {
							ir = append(ir, -999999)
						}
					}
					op.Rows = append(op.Rows, ir)
				}
				mu.Lock()
				hist = append(hist, op)
				mu.Unlock()
			}
		}(c)
	}
	done := make(chan struct{})
	go func() { wg.Wait(); close(done) }()
	idleTicks, lastCount, lastTick := 0, int64(0), time.Now() // idle time is counted in observed ticks (see vf.WithTimeout)
	for {
		select {
		case <-done:
			st.calls = len(hist)
			// final table for family C / final-state checks
			final, err := db.ScanAll("t")
			if err != nil {
				return vf.Failf("final-scan-error", "%v", err), hist
			}
			return checkHistory(r, hist, final, st), hist
		case <-time.After(500 * time.Millisecond):
			n := atomic.LoadInt64(&completed)
			now := time.Now()
			gap := now.Sub(lastTick)
			lastTick = now
			if n != lastCount {
				lastCount, idleTicks = n, 0
			} else if gap < 1200*time.Millisecond {
				idleTicks++ // a longer gap means this process was not scheduled: not charged
			}
			if idleTicks > 240 {
				buf := make([]byte, 1<<20)
				k := runtime.Stack(buf, true)
				mu.Lock()
				h := append([]HOp{}, hist...)
				mu.Unlock()
				return &vf.Failure{Class: "no-progress", Msg: fmt.Sprintf("no ExecuteSQL call completed for 120 s (%d of %d calls done)", n, r.Clients*r.OpsPer), Extra: string(buf[:k])}, h
			}
		}
	}
}

// ---- history checks -----------------------------------------------------------------------------------

type regInput struct {
	kind string
	col  int
	grp  int
	val  int
}

func members(rows, col, grp int) []int {
	var out []int
	for i := 0; i < rows; i++ {
		if (col == 1 && i%2 == grp) || (col == 2 && i/2 == grp) {
			out = append(out, i)
		}
	}
	return out
}

func checkHistory(r *Run, hist []HOp, final []dbh.Row, st *stats) *vf.Failure {
	// every call got exactly one reply that belongs to its own statement
	written := map[int]bool{0: true}
	for _, op := range hist {
		if op.Kind == "w" {
			written[op.Val] = true
		}
	}
	for _, op := range hist {
		if op.Err != "" {
			return vf.Failf("call-error", "client %d: %s returned error %q", op.Client, op.SQL, op.Err)
		}
		switch op.Kind {
		case "r":
			want := members(r.Rows, op.Col, op.Grp)
			var ids []int
			vals := map[int]bool{}
			for _, row := range op.Rows {
				if len(row) != 2 {
					return vf.Failf("foreign-reply", "client %d: %s got a row with %d columns: %v", op.Client, op.SQL, len(row), op.Rows)
				}
				ids = append(ids, row[0])
				vals[row[1]] = true
				if !written[row[1]] {
					return vf.Failf("invented-value", "client %d: %s returned value %d which no update wrote", op.Client, op.SQL, row[1])
				}
			}
			sort.Ints(ids)
			if fmt.Sprint(ids) != fmt.Sprint(want) {
				return vf.Failf("foreign-reply", "client %d: %s returned ids %v, the group has %v", op.Client, op.SQL, ids, want)
			}
		default:
			if len(op.Rows) != 0 {
				return vf.Failf("foreign-reply", "client %d: %s (no result set) got rows %v", op.Client, op.SQL, op.Rows)
			}
		}
	}
	// overlap statistics: calls that overlap in real time with a write on a common row
	for i := range hist {
		for j := range hist {
			if i < j && hist[i].Call <= hist[j].Ret && hist[j].Call <= hist[i].Ret && (hist[i].Kind == "w" || hist[j].Kind == "w") {
				st.overlapWrites++
			}
		}
	}
	switch r.Family {
	case "A":
		// atomic visibility: groups are disjoint and every update writes a whole group, so inside one answer
		// all rows of the group carry the same value; per client, a later read never goes back to a value that
		// was overwritten before an earlier read of the same client returned (values are unique, so going back
		// means re-appearing after a different value was seen)
		lastSeen := map[[2]int][]int{} // (client, group) -> values seen in order
		for _, op := range hist {
			if op.Kind != "r" {
				continue
			}
			v0 := op.Rows[0][1]
			for _, row := range op.Rows {
				if row[1] != v0 {
					return vf.Failf("group-half-updated", "client %d: %s returned %v: the rows of one group carry different values although every update writes the whole group at once", op.Client, op.SQL, op.Rows)
				}
			}
			k := [2]int{op.Client, op.Grp}
			seq := lastSeen[k]
			for i := 0; i+1 < len(seq); i++ {
				if seq[i] == v0 && seq[len(seq)-1] != v0 {
					return vf.Failf("value-reappeared", "client %d saw group %d as %v and then again %d: an overwritten value came back", op.Client, op.Grp, seq, v0)
				}
			}
			if len(seq) == 0 || seq[len(seq)-1] != v0 {
				lastSeen[k] = append(seq, v0)
			}
		}
		for _, row := range final {
			if !written[int(row[3].I)] {
				return vf.Failf("invented-value", "final table holds v=%d which no update wrote", row[3].I)
			}
		}
	case "B":
		// linearizability against a multi-register with real-time order (covers atomic visibility:
		// a read that sees a group half-updated has no linearization)
		var ops []porcupine.Operation
		for _, op := range hist {
			in := regInput{op.Kind, op.Col, op.Grp, op.Val}
			var out interface{}
			if op.Kind == "r" {
				m := map[int]int{}
				for _, row := range op.Rows {
					m[row[0]] = row[1]
				}
				out = m
			}
			ops = append(ops, porcupine.Operation{ClientId: op.Client, Input: in, Call: op.Call, Output: out, Return: op.Ret})
		}
		rows := r.Rows
		model := porcupine.Model{
			Init: func() interface{} { return strings.Repeat("0,", rows) },
			Step: func(state, input, output interface{}) (bool, interface{}) {
				vals := strings.Split(strings.TrimSuffix(state.(string), ","), ",")
				in := input.(regInput)
				if in.kind == "w" {
					for _, id := range members(rows, in.col, in.grp) {
						vals[id] = strconv.Itoa(in.val)
					}
					return true, strings.Join(vals, ",") + ","
				}
				got := output.(map[int]int)
				for _, id := range members(rows, in.col, in.grp) {
					if strconv.Itoa(got[id]) != vals[id] {
						return false, state
					}
				}
				return true, state
			},
			Equal: func(a, b interface{}) bool { return a.(string) == b.(string) },
			DescribeOperation: func(input, output interface{}) string {
				in := input.(regInput)
				if in.kind == "w" {
					return fmt.Sprintf("UPDATE v=%d WHERE g%d=%d", in.val, in.col, in.grp)
				}
				return fmt.Sprintf("SELECT WHERE g%d=%d -> %v", in.col, in.grp, output)
			},
		}
		res := porcupine.CheckOperationsTimeout(model, ops, 20*time.Second)
		if res == porcupine.Illegal {
			// is it already an atomic-visibility violation inside one answer?
			for _, op := range hist {
				if op.Kind != "r" {
					continue
				}
				// rows of the group that belong to the same (col,grp) were last written together only if every
				// later write covers a superset; report the plain linearizability failure with the history
				_ = op
			}
			return vf.Failf("not-linearizable", "the recorded history of %d calls (%d clients) has no serial order consistent with real time", len(hist), r.Clients)
		}
		if res == porcupine.Unknown {
			return vf.Failf("checker-timeout", "porcupine did not decide the history of %d calls within 20 s", len(hist))
		}
		// final state = state after some linearization: at least every row's final value was written
		for _, row := range final {
			if !written[int(row[3].I)] {
				return vf.Failf("invented-value", "final table holds v=%d which no update wrote", row[3].I)
			}
		}
	case "C":
		// exactly once: every inserted id exists exactly once; every row's v is the value of some update of that row or its initial value
		count := map[int]int{}
		for _, row := range final {
			count[int(row[0].I)]++
		}
		for _, op := range hist {
			if op.Kind == "ins" && count[op.Val] != 1 {
				return vf.Failf("not-exactly-once", "INSERT of id %d was answered successfully once, the table holds it %d times", op.Val, count[op.Val])
			}
		}
		if len(final) != r.Rows+countKind(hist, "ins") {
			return vf.Failf("not-exactly-once", "table holds %d rows, expected %d initial + %d inserted", len(final), r.Rows, countKind(hist, "ins"))
		}
		lastWrites := map[int]map[int]bool{}
		for _, op := range hist {
			if op.Kind == "w" {
				if lastWrites[op.Grp] == nil {
					lastWrites[op.Grp] = map[int]bool{}
				}
				lastWrites[op.Grp][op.Val] = true
			}
		}
		for _, row := range final {
			id, v := int(row[0].I), int(row[3].I)
			if id < r.Rows {
				if v != 0 && !lastWrites[id][v] {
					return vf.Failf("wrong-row-updated", "row %d ends with v=%d, which no UPDATE ... WHERE id=%d wrote", id, v, id)
				}
				if v == 0 && len(lastWrites[id]) > 0 {
					return vf.Failf("update-lost", "row %d still holds its initial value although %d updates of it were answered successfully", id, len(lastWrites[id]))
				}
			}
		}
	}
	return nil
}

func countKind(h []HOp, k string) int {
	n := 0
	for _, op := range h {
		if op.Kind == k {
			n++
		}
	}
	return n
}

const rule = "Case = one run of 2-32 (every fourth run of families A/C: 48-96, i.e. more callers than the request manager's 24 worker slots) client goroutines calling SamehadaDB.ExecuteSQL concurrently (a quarter of the family-A runs use a 600-row table of padded rows in a pool that cannot hold it, through sequential scans only: buffer pressure; a third of those instead update a 60-row table (3-5 callers) with a payload string of changing length, so that rows relocate and aborted statements have moves to take back - not generated while known finding KF-C12-relocated-row-missed-by-concurrent-update is listed) (GOMAXPROCS 2/4/16, in-memory and file mode, SQL- and catalog-created table t(id,g1,g2,v) with 4-60 rows and overlapping groupings g1 = id%2, g2 = id/2): family A (4-32 clients, disjoint groups) = multi-row UPDATE t SET v=<unique> WHERE g1=<x> and SELECT id,v WHERE g1=<x> (in half of the runs 50-100% of these statements carry a never-true OR branch, which forces the sequential-scan path instead of the index range scan) -> inside one answer all rows of a group carry one value and an overwritten value never comes back to the same client; family B (4-8 clients, overlapping groupings g1/g2, 8-15 calls each) -> the recorded history (call/return stamps from a shared logical clock) must be linearizable against a multi-register in which an update writes its whole group at once (so a reader seeing a group half-updated, a lost or doubled update, or a stale read after return all fail), checked with porcupine; family C = concurrent INSERTs of unique ids and single-row updates on 2-3 hot rows (internal abort/retry frequent) -> every id exactly once, every row's final value written by an update of that row. Every reply must have its own statement's shape (column count, ids of the requested group). A watchdog reports a run in which no call completed for 120 s. Non-trivial = a run with at least two calls overlapping in real time, one of them a write."

var assumptions = []string{
	"schedules are whatever the Go runtime produces; not reproducible by seed (the recorded history is the reproducible unit; replay re-checks it and re-runs the workload)",
	"readers never filter on a column that concurrent updates change (that pattern is the listed C04 known finding)",
	"background threads disabled (hook H2) so that statistics scans do not add aborts; liveness is only checked as total absence of progress",
}

func TestConcurrent(t *testing.T) {
	s := vf.Open("C12")
	s.Rule, s.Assumptions = rule, assumptions
	defer func() { s.Flush(!t.Failed()) }()
	runs := s.Pick(45, 600)
	if v := os.Getenv("VERIF_C12_RUNS"); v != "" {
		runs, _ = strconv.Atoi(v)
	}
	rng := rand.New(rand.NewSource(s.Seed*104729 + int64(s.Shard)))
	for i := 0; i < runs; i++ {
		r := &Run{Family: []string{"A", "B", "C"}[(i+s.Shard)%3], Procs: []int{2, 4, 16}[rng.Intn(3)], File: rng.Intn(4) == 0, SQLTable: rng.Intn(2) == 0, Seed: rng.Int63()}
		switch r.Family {
		case "A":
			r.Clients, r.OpsPer, r.Rows = 4+rng.Intn(29), 8+rng.Intn(12), []int{6, 24, 60}[rng.Intn(3)]
		case "B":
			r.Clients, r.OpsPer, r.Rows = 4+rng.Intn(5), 8+rng.Intn(8), 4+rng.Intn(3)
		default:
			r.Clients, r.OpsPer, r.Rows = 4+rng.Intn(13), 20+rng.Intn(30), 2+rng.Intn(2)
		}
		if r.Family != "C" {
			r.SeqPct = []int{0, 0, 50, 100}[rng.Intn(4)]
		}
		if r.Family == "A" && (rng.Intn(4) == 0 || os.Getenv("VERIF_C12_PRESSURE") != "") {
			// a table of several dozen pages in a pool that cannot hold it, read and updated through sequential scans: the clients
			// evict each other's (dirty) pages all the time
			r.Clients, r.OpsPer, r.Rows, r.Pad, r.KB, r.SQLTable, r.SeqPct = 6+rng.Intn(7), 5+rng.Intn(4), 600, 150, 200, false, 100
			grow := rng.Intn(3) == 0 || os.Getenv("VERIF_C12_GROW") != ""
			if grow && s.ExclusionOn("size-changing-updates-under-concurrency") {
				// known finding KF-C12-relocated-row-missed-by-concurrent-update: not generated while it is listed
				s.Excluded("size-changing-updates-under-concurrency")
				grow = false
			}
			if grow {
				// size-changing multi-row updates on a smaller table (rows relocate; conflicts abort statements that have moved rows)
				// (few clients and short groups: a statement that loses a conflict takes back up to a group's worth of moves, and with
				// many clients on long groups the retries alone can keep every call busy for minutes)
				r.Grow, r.Rows, r.KB, r.SeqPct = true, 60, 400, []int{0, 50, 100}[rng.Intn(3)]
				r.Clients, r.OpsPer = 3+rng.Intn(3), 4+rng.Intn(3)
			} else if rng.Intn(2) == 0 {
				// no index pages at all, the pool a few frames per running statement (at least 4: a statement pins at most three pages at a time)
				r.NoIdx = true
				r.Clients = 4 + rng.Intn(5)
				r.KB = 16 * r.Clients
			}
			if v := os.Getenv("VERIF_C12_PRESSURE"); v != "" { // development: "clients,kb,noidx"
				var ni int
				fmt.Sscanf(v, "%d,%d,%d", &r.Clients, &r.KB, &ni)
				r.NoIdx = ni != 0
			}
		} else if r.Family != "B" && rng.Intn(4) == 0 {
			// many more callers than worker slots (the request manager runs at most 24 statements at a time): long queues
			// while statements are aborted and retried
			r.Clients, r.OpsPer = 48+rng.Intn(49), 4+rng.Intn(6)
		}
		st := &stats{}
		s.MarkCurrent(r)
		f, hist := execute(r, st)
		s.MarkCurrent(nil)
		s.Count(r, st.overlapWrites > 0, "family-"+r.Family, fmt.Sprintf("gomaxprocs-%d", r.Procs))
		s.Class("calls", int64(st.calls))
		s.Class("overlapping-call-pairs-with-a-write", int64(st.overlapWrites))
		if f != nil && f.Class == "checker-timeout" {
			s.Class("history-checker-undecided", 1) // a time budget hit is inconclusive, never a violation
			continue
		}
		if f != nil {
			r.History = hist
			s.Judge(t, r, f)
			return
		}
	}
}

func TestReplay(t *testing.T) {
	s := vf.Open("C12")
	s.Rule, s.Assumptions = rule, assumptions
	defer func() { s.Flush(true) }()
	s.Replay(func(raw json.RawMessage) *vf.Failure {
		var r Run
		if err := json.Unmarshal(raw, &r); err != nil {
			return vf.Failf("bad-case", "%v", err)
		}
		// re-run the workload a few times (schedules are not reproducible); any failing run fails the replay
		for i := 0; i < 5; i++ {
			rr := r
			rr.History = nil
			rr.Seed += int64(i)
			s.MarkCurrent(&rr)
			f, _ := execute(&rr, &stats{})
			s.MarkCurrent(nil)
			if f != nil {
				return f
			}
		}
		return nil
	})
}
