// C13 — The buffer pool always returns the latest bytes of a page.
// rapid state machine over new/fetch/modify/unpin/flush/deallocate vs. a map model id -> bytes.
package c13

import (
	"bytes"
	"encoding/json"
	"fmt"
	"os"
	"testing"
	"time"

	"github.com/ryogrid/SamehadaDB/lib/recovery"
	"github.com/ryogrid/SamehadaDB/lib/storage/buffer"
	"github.com/ryogrid/SamehadaDB/lib/storage/disk"
	"github.com/ryogrid/SamehadaDB/lib/storage/page"
	"github.com/ryogrid/SamehadaDB/lib/types"
	"pgregory.net/rapid"

	"verifharness/dbh"
	"verifharness/vf"
)

type Op struct {
	K     string `json:"k"`           // new fetch write unpin flush flushall flushdirty dealloc dealloc-nowait dealloc-nowait-pinned reopen
	T     int    `json:"t,omitempty"` // target selector (index into the relevant id list, mod len)
	Off   int    `json:"off,omitempty"`
	Len   int    `json:"len,omitempty"`
	Fill  byte   `json:"fill,omitempty"`
	Dirty bool   `json:"dirty,omitempty"`
}

type Case struct {
	N    int  `json:"n"`    // frames
	File bool `json:"file"` // file-backed DiskManagerImpl instead of the in-memory one
	Ops  []Op `json:"ops"`
}

type stats struct {
	evictDirtyRefetch int
	deallocReuse      int
	fetches           int
	classes           map[string]bool
}

type pin struct {
	pg       *page.Page
	count    int
	modified bool // written through this pin set since it was (re)pinned: must be unpinned dirty
}

func runCase(c *Case) (*vf.Failure, *stats) {
	st := &stats{classes: map[string]bool{}}
	f, _ := vf.WithTimeout(60*time.Second, func() *vf.Failure { return run(c, st) })
	return f, st
}

func run(c *Case, st *stats) *vf.Failure {
	var dm disk.DiskManager
	var dir string
	if c.File {
		dir = dbh.TempDir("c13")
		defer os.RemoveAll(dir)
		dm = disk.NewDiskManagerImpl(dir + "/p.db")
	} else {
		dm = disk.NewVirtualDiskManagerImpl("c13.db")
	}
	lm := recovery.NewLogManager(&dm)
	bpm := buffer.NewBufferPoolManager(uint32(c.N), dm, lm)

	model := map[types.PageID][]byte{} // live pages: bytes last written
	var liveIDs []types.PageID
	pins := map[types.PageID]*pin{}
	var pinnedIDs []types.PageID
	leaked := 0
	everEvictable := map[types.PageID]bool{} // dirty pages that were unpinned to zero (may have been evicted since)
	deallocated := map[types.PageID]bool{}
	deallocPending := map[types.PageID]bool{} // deallocated with isNoWait while pinned; the pin is still held
	var ghosts []types.PageID                 // allocated, never written, unpinned clean: a later fetch may fail (nothing to read); their content is unspecified
	isGhost := map[types.PageID]bool{}

	removeID := func(l []types.PageID, id types.PageID) []types.PageID {
		var o []types.PageID
		for _, x := range l {
			if x != id {
				o = append(o, x)
			}
		}
		return o
	}
	capacity := func() bool { return len(pins)+leaked < c.N } // a frame can be found for one more page
	checkPins := func(step int, op Op) *vf.Failure {
		for id, p := range pins {
			if p.pg.GetPageID() != id {
				return vf.Failf("pinned-page-rehomed", "step %d %+v: a handle pinned for page %d now belongs to page %d", step, op, id, p.pg.GetPageID())
			}
			if !bytes.Equal(p.pg.Data()[:], model[id]) {
				return vf.Failf("pinned-bytes-changed", "step %d %+v: bytes of pinned page %d changed under the holder", step, op, id)
			}
			if int(p.pg.PinCount()) < p.count {
				return vf.Failf("pin-count", "step %d %+v: page %d pin count %d, holders %d", step, op, id, p.pg.PinCount(), p.count)
			}
		}
		return nil
	}

	for step, op := range c.Ops {
		switch op.K {
		case "new":
			if !capacity() {
				continue // callers never ask for a frame when every frame is pinned (the replacer panics by design)
			}
			pg := bpm.NewPage()
			if pg == nil {
				return vf.Failf("new-nil", "step %d: NewPage returned nil with %d of %d frames pinned", step, len(pins)+leaked, c.N)
			}
			id := pg.GetPageID()
			if _, held := pins[id]; held {
				return vf.Failf("new-id-in-use", "step %d: NewPage handed out page id %d although a holder still pins the page with that id", step, id)
			}
			if _, live := model[id]; (live && !deallocPending[id]) || isGhost[id] {
				return vf.Failf("new-id-in-use", "step %d: NewPage handed out page id %d which is still in use", step, id)
			}
			delete(deallocPending, id)
			if deallocated[id] {
				st.deallocReuse++
				st.classes["id-reuse-after-dealloc"] = true
				delete(deallocated, id)
			}
			// fill completely so that stale frames are distinguishable
			for i := range pg.Data() {
				pg.Data()[i] = op.Fill + byte(i) + byte(step)
			}
			model[id] = append([]byte{}, pg.Data()[:]...)
			liveIDs = append(liveIDs, id)
			pins[id] = &pin{pg: pg, count: 1, modified: true}
			pinnedIDs = append(pinnedIDs, id)
		case "new-clean": // a page that is allocated and released without ever being written
			if !capacity() {
				continue
			}
			pg := bpm.NewPage()
			if pg == nil {
				return vf.Failf("new-nil", "step %d: NewPage returned nil with %d of %d frames pinned", step, len(pins)+leaked, c.N)
			}
			id := pg.GetPageID()
			_, held := pins[id]
			if _, live := model[id]; held || (live && !deallocPending[id]) || isGhost[id] {
				return vf.Failf("new-id-in-use", "step %d: NewPage handed out page id %d which is still in use", step, id)
			}
			delete(deallocPending, id)
			delete(deallocated, id)
			bpm.UnpinPage(id, false)
			ghosts = append(ghosts, id)
			isGhost[id] = true
			st.classes["page-released-unwritten"] = true
		case "fetch-ghost": // may fail (there is nothing to read); whatever it does, other pages must keep their bytes
			if len(ghosts) == 0 || !capacity() {
				continue
			}
			id := ghosts[op.T%len(ghosts)]
			pg := bpm.FetchPage(id)
			if pg == nil {
				st.classes["fetch-of-unwritten-page-failed"] = true
				continue
			}
			if pg.GetPageID() != id {
				return vf.Failf("fetch-wrong-page", "step %d: FetchPage(%d) returned page %d", step, id, pg.GetPageID())
			}
			bpm.UnpinPage(id, false)
		case "fetch":
			if len(liveIDs) == 0 {
				continue
			}
			id := liveIDs[op.T%len(liveIDs)]
			p, held := pins[id]
			if !held && !capacity() {
				continue
			}
			wasResident := false
			for _, fr := range bpm.GetPages() {
				if fr != nil && fr.GetPageID() == id {
					wasResident = true
				}
			}
			pg := bpm.FetchPage(id)
			if pg == nil {
				return vf.Failf("fetch-nil", "step %d: FetchPage(%d) of a live page returned nil", step, id)
			}
			st.fetches++
			if pg.GetPageID() != id {
				return vf.Failf("fetch-wrong-page", "step %d: FetchPage(%d) returned page %d", step, id, pg.GetPageID())
			}
			if held && pg != p.pg {
				return vf.Failf("fetch-second-copy", "step %d: FetchPage(%d) returned a different frame object while the page is pinned", step, id)
			}
			if !bytes.Equal(pg.Data()[:], model[id]) {
				return vf.Failf("stale-bytes", "step %d: FetchPage(%d) does not hold the bytes last written to that page (first diff at %d)", step, id, firstDiff(pg.Data()[:], model[id]))
			}
			if !held && everEvictable[id] && !wasResident {
				st.evictDirtyRefetch++
				st.classes["evicted-dirty-page-refetched"] = true
			}
			if held {
				p.count++
			} else {
				pins[id] = &pin{pg: pg, count: 1}
				pinnedIDs = append(pinnedIDs, id)
			}
		case "write":
			if len(pinnedIDs) == 0 {
				continue
			}
			id := pinnedIDs[op.T%len(pinnedIDs)]
			p := pins[id]
			off := op.Off % 4096
			n := op.Len%512 + 1
			if off+n > 4096 {
				n = 4096 - off
			}
			for i := 0; i < n; i++ {
				p.pg.Data()[off+i] = op.Fill + byte(i)
			}
			copy(model[id][off:off+n], p.pg.Data()[off:off+n])
			p.modified = true
		case "unpin":
			if len(pinnedIDs) == 0 {
				continue
			}
			id := pinnedIDs[op.T%len(pinnedIDs)]
			p := pins[id]
			dirty := op.Dirty || p.modified // callers that modified a page always unpin it dirty
			if err := bpm.UnpinPage(id, dirty); err != nil {
				return vf.Failf("unpin-error", "step %d: UnpinPage(%d): %v", step, id, err)
			}
			if dirty {
				p.modified = false // the dirty flag is now the pool's responsibility (sticky until written back)
			}
			p.count--
			if p.count == 0 {
				delete(pins, id)
				pinnedIDs = removeID(pinnedIDs, id)
				everEvictable[id] = true
				if deallocPending[id] {
					delete(model, id) // nobody may read it any more
					delete(everEvictable, id)
				}
			}
		case "flush":
			if len(liveIDs) == 0 {
				continue
			}
			fid := liveIDs[op.T%len(liveIDs)]
			bpm.FlushPage(fid)
			if p, held := pins[fid]; held {
				p.modified = false // what the holder wrote is on disk now: it may release the page clean
				st.classes["flush-of-pinned-modified-page"] = true
			}
		case "flushall":
			bpm.FlushAllPages()
			for _, p := range pins {
				p.modified = false
			}
		case "flushdirty":
			bpm.FlushAllDirtyPages()
		case "dealloc": // skip-list shape: mark while pinned, unpin, then DeallocatePage(id,false)
			if len(pinnedIDs) == 0 {
				continue
			}
			id := pinnedIDs[op.T%len(pinnedIDs)]
			p := pins[id]
			if p.count != 1 {
				continue
			}
			p.pg.SetIsDeallocated(true)
			bpm.UnpinPage(id, true)
			bpm.DeallocatePage(id, false)
			delete(pins, id)
			pinnedIDs = removeID(pinnedIDs, id)
			delete(model, id)
			liveIDs = removeID(liveIDs, id)
			deallocated[id] = true
		case "dealloc-nowait": // hash-join shape on an unpinned page
			var cands []types.PageID
			for _, id := range liveIDs {
				if _, held := pins[id]; !held {
					cands = append(cands, id)
				}
			}
			if len(cands) == 0 {
				continue
			}
			id := cands[op.T%len(cands)]
			bpm.DeallocatePage(id, true)
			delete(model, id)
			liveIDs = removeID(liveIDs, id)
			deallocated[id] = true
			st.classes["dealloc-nowait"] = true
		case "dealloc-nowait-pinned": // DeallocatePage(id,true) on a page the caller still pins (B-tree container / hash-join shape); the holder keeps using its handle and unpins later
			if len(pinnedIDs) == 0 {
				continue
			}
			id := pinnedIDs[op.T%len(pinnedIDs)]
			if deallocPending[id] {
				continue
			}
			bpm.DeallocatePage(id, true)
			deallocPending[id] = true // still in use by its holder: must not be handed out, bytes must stay under the holder
			liveIDs = removeID(liveIDs, id)
			deallocated[id] = true
			st.classes["dealloc-nowait-pinned"] = true
		case "reopen": // everything flushed and unpinned => a fresh pool on the same disk manager reads the model bytes
			if len(pins) != 0 {
				continue
			}
			bpm.FlushAllPages()
			b2 := buffer.NewBufferPoolManager(uint32(c.N), dm, lm)
			for _, id := range liveIDs {
				pg := b2.FetchPage(id)
				if pg == nil {
					return vf.Failf("reopen-fetch-nil", "step %d: after FlushAllPages a fresh pool cannot fetch page %d", step, id)
				}
				if !bytes.Equal(pg.Data()[:], model[id]) {
					return vf.Failf("flush-lost-bytes", "step %d: after FlushAllPages page %d on disk differs from the bytes last written (first diff at %d)", step, id, firstDiff(pg.Data()[:], model[id]))
				}
				b2.UnpinPage(id, false)
			}
			st.classes["fresh-pool-readback"] = true
		default:
			panic("bad op " + op.K)
		}
		if f := checkPins(step, op); f != nil {
			return f
		}
	}
	// final: every live page is still readable with its latest bytes
	for id, p := range pins {
		for i := 0; i < p.count; i++ {
			bpm.UnpinPage(id, true)
		}
	}
	for _, id := range liveIDs {
		if leaked >= c.N {
			break
		}
		pg := bpm.FetchPage(id)
		if pg == nil {
			return vf.Failf("fetch-nil", "final: FetchPage(%d) of a live page returned nil", id)
		}
		if !bytes.Equal(pg.Data()[:], model[id]) {
			return vf.Failf("stale-bytes", "final: FetchPage(%d) does not hold the bytes last written (first diff at %d)", id, firstDiff(pg.Data()[:], model[id]))
		}
		bpm.UnpinPage(id, false)
	}
	return nil
}

func firstDiff(a, b []byte) int {
	for i := range a {
		if i >= len(b) || a[i] != b[i] {
			return i
		}
	}
	return -1
}

func genOp(t *rapid.T) Op {
	k := rapid.SampledFrom([]string{"new", "new", "new", "new", "fetch", "fetch", "fetch", "fetch", "fetch", "write", "write", "write",
		"unpin", "unpin", "unpin", "unpin", "unpin", "unpin", "unpin", "unpin", "unpin",
		"flush", "flushall", "flushdirty", "dealloc", "dealloc-nowait", "dealloc-nowait-pinned", "reopen", "new-clean", "fetch-ghost", "fetch-ghost"}).Draw(t, "k")
	op := Op{K: k, T: rapid.IntRange(0, 30).Draw(t, "t")}
	switch k {
	case "write":
		op.Off = rapid.SampledFrom([]int{0, 1, 8, 100, 2048, 4000, 4095}).Draw(t, "off")
		op.Len = rapid.IntRange(0, 511).Draw(t, "len")
		op.Fill = rapid.Byte().Draw(t, "fill")
	case "new":
		op.Fill = rapid.Byte().Draw(t, "fill")
	case "unpin":
		op.Dirty = rapid.Bool().Draw(t, "dirty")
	}
	return op
}

func genCase(t *rapid.T, noNoWait bool) *Case {
	c := &Case{N: rapid.SampledFrom([]int{2, 2, 3, 3, 3, 4, 4, 5, 6, 8, 12}).Draw(t, "n"), File: rapid.IntRange(0, 3).Draw(t, "file") == 0}
	nops := rapid.SampledFrom([]int{5, 12, 25, 50, 80, 120}).Draw(t, "nops") // rapid's own slice lengths are mostly short
	c.Ops = rapid.SliceOfN(rapid.Custom(genOp), nops, 120).Draw(t, "ops")
	if noNoWait {
		for i := range c.Ops {
			if c.Ops[i].K == "dealloc-nowait" || c.Ops[i].K == "dealloc-nowait-pinned" {
				c.Ops[i].K = "dealloc"
			}
		}
	}
	return c
}

const rule = "Case = (pool of 2-12 frames, in-memory or file-backed disk manager, 5-120 operations by simulated users holding pin handles: NewPage, FetchPage of a live id, write bytes into a pinned page, UnpinPage(dirty|clean; dirty whenever the holder modified the page since it last flushed it), FlushPage, FlushAllPages, FlushAllDirtyPages, deallocation in the skip-list shape (SetIsDeallocated+unpin+DeallocatePage(id,false)) and in the hash-join shapes (DeallocatePage(id,true) on an unpinned / on a still pinned page), fresh pool on the same disk after FlushAllPages; pages that are allocated and released without ever being written, and later fetches of them, which may fail). Oracle: map model id -> bytes last written; FetchPage returns those bytes, the same frame object as other pins, a pinned handle never changes id or bytes, NewPage never returns a live id. Non-trivial = a page that had been modified and unpinned to zero was fetched again when no frame held it any more (eviction + re-fetch), or a deallocated id was handed out again."

var assumptions = []string{
	"never more distinct pinned pages than frames before a call that needs a frame (the clock replacer panics by design otherwise)",
	"a holder that modified a page and did not flush it afterwards unpins it with isDirty=true; deallocated ids are not fetched before they are handed out again",
	"single goroutine (concurrent use of the pool is exercised by the C19 workloads)",
}

var sess *vf.Session

func TestSearch(t *testing.T) {
	s := vf.Open("C13")
	s.Rule, s.Assumptions = rule, assumptions
	sess = s
	defer func() { s.Flush(!t.Failed()) }()
	rapid.Check(t, func(rt *rapid.T) {
		ex := s.ExclusionOn("dealloc-nowait")
		c := genCase(rt, ex)
		if ex {
			s.Excluded("dealloc-nowait")
		}
		f, st := runCase(c)
		var cls []string
		for k := range st.classes {
			cls = append(cls, k)
		}
		if c.File {
			cls = append(cls, "file-backed")
		}
		s.Count(c, st.evictDirtyRefetch > 0 || st.deallocReuse > 0, cls...)
		s.Judge(rt, c, f)
	})
}

func TestReplay(t *testing.T) {
	s := vf.Open("C13")
	s.Rule, s.Assumptions = rule, assumptions
	defer func() { s.Flush(true) }()
	s.Replay(func(raw json.RawMessage) *vf.Failure {
		var c Case
		if err := json.Unmarshal(raw, &c); err != nil {
			return vf.Failf("bad-case", "%v", err)
		}
		f, _ := runCase(&c)
		return f
	})
}

var _ = fmt.Sprint
