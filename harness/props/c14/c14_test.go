// C14 — Statements release every buffer pin they take.
package c14

import (
	"encoding/json"
	"fmt"
	"sort"
	"strings"
	"testing"
	"time"

	"pgregory.net/rapid"

	"verifharness/dbh"
	"verifharness/sqlgen"
	"verifharness/vf"
)

// Step is one statement: single-table (S) or join (J); Conflict parks another transaction that
// holds an exclusive lock on a row of the table first, so that the statement aborts; End says how
// the statement's transaction finishes when the engine did not abort it.
type Step struct {
	S        *dbh.Stmt      `json:"s,omitempty"`
	J        *dbh.JoinQuery `json:"j,omitempty"`
	Bad      string         `json:"bad,omitempty"` // a statement that fails: "unknown-column" | "type-error" | "unknown-table"
	Conflict bool           `json:"conflict,omitempty"`
	Shared   bool           `json:"shared,omitempty"` // with Conflict: the parked transaction only reads the table (shared locks), so the statement's scan succeeds and its lock upgrade is refused
	End      string         `json:"end"`              // commit | abort
	Repeat   int            `json:"repeat,omitempty"`
	// Hold: the transaction is not ended after this statement; the next step runs in the same transaction (so that it
	// meets rows the transaction itself deleted, updated or inserted). Pins are compared after every statement all the same.
	Hold bool `json:"hold,omitempty"`
	// Reopen (file-backed cases, no transaction open): the database is shut down cleanly ("clean") or stopped without any flush
	// ("crash") and reopened before the step: the first statements after a start work with freshly initialised table heaps
	Reopen string `json:"reopen,omitempty"`
}

type Case struct {
	Defs  []dbh.TableDef `json:"defs"`
	Rows  [][]dbh.Row    `json:"rows"`
	KB    int            `json:"kb"`
	Steps []Step         `json:"steps"`
	File  bool           `json:"file,omitempty"`  // file-backed storage (restarts exist only there)
	Stats []string       `json:"stats,omitempty"` // per table: "" (no statistics) | "low" (computed after the first 2 rows) | "fresh" (after the load): steers the join algorithm
}

type stats struct {
	nontrivial int
	classes    map[string]bool
}

func pinsStr(m map[int32]int32) string {
	var ids []int
	for id := range m {
		ids = append(ids, int(id))
	}
	sort.Ints(ids)
	var p []string
	for _, id := range ids {
		p = append(p, fmt.Sprintf("%d:%d", id, m[int32(id)]))
	}
	return strings.Join(p, " ")
}

// diffPins lists frames that are pinned after the statement but were not pinned before it. (A higher
// pin count on a page that was already pinned before — the skip list does that to the pages it keeps
// pinned for its lifetime — leaves the set of pinned frames unchanged and is not what the property forbids.)
func diffPins(before, after map[int32]int32) string {
	var d []string
	for id, n := range after {
		if _, ok := before[id]; !ok {
			d = append(d, fmt.Sprintf("page %d pin count 0 -> %d", id, n))
		}
	}
	sort.Strings(d)
	return strings.Join(d, "; ")
}

func runCase(c *Case) (*vf.Failure, *stats) {
	st := &stats{classes: map[string]bool{}}
	f, _ := vf.WithTimeout(90*time.Second, func() *vf.Failure { return run(c, st) })
	return f, st
}

func run(c *Case, st *stats) *vf.Failure {
	dbh.NoBackground(true)
	var db *dbh.DB
	if c.File {
		dir := dbh.TempDir("c14")
		db = dbh.Open(dir+"/db", c.KB, true)
		defer func() { db.Stop(); dbh.RemoveFiles(db.Name) }()
	} else {
		db = dbh.Open("c14", c.KB, false)
		defer func() { db.Stop() }()
	}
	for i := range c.Defs {
		def := &c.Defs[i]
		if err := db.CreateTable(def); err != nil {
			return vf.Failf("create-error", "%v", err)
		}
		names := make([]string, len(def.Cols))
		for j, cl := range def.Cols {
			names[j] = cl.Name
		}
		updateStats := func() *vf.Failure {
			before := db.PinnedPages()
			tm := db.Cat().GetTableByName(def.Name)
			t := db.Begin()
			err := tm.GetStatistics().Update(tm, t.T)
			t.Commit()
			if err != nil {
				return vf.Failf("stats-error", "%v", err)
			}
			if d := diffPins(before, db.PinnedPages()); d != "" {
				return vf.Failf("pin-leak:statistics-update", "statistics update of %s: pinned frames changed: %s", def.Name, d)
			}
			st.classes["statistics-update"] = true
			return nil
		}
		stats := ""
		if i < len(c.Stats) {
			stats = c.Stats[i]
		}
		for r := 0; r < len(c.Rows[i]); {
			e := r + 20
			if stats == "low" && r == 0 {
				e = 2
			}
			if e > len(c.Rows[i]) {
				e = len(c.Rows[i])
			}
			if _, err := db.Auto(&dbh.Stmt{Kind: "insert", Table: def.Name, Cols: names, Rows: c.Rows[i][r:e], Plan: true}); err != nil {
				return vf.Failf("load-error", "%v", err)
			}
			if stats == "low" && r == 0 {
				if f := updateStats(); f != nil {
					return f
				}
			}
			r = e
		}
		if stats == "fresh" {
			if f := updateStats(); f != nil {
				return f
			}
		}
	}
	var held *dbh.Txn // transaction kept open by the previous step
	for si := range c.Steps {
		sp := &c.Steps[si]
		reps := sp.Repeat
		if reps < 1 {
			reps = 1
		}
		if c.File && sp.Reopen != "" && (held == nil || held.Done) {
			if sp.Reopen == "clean" {
				db.Shutdown()
			} else {
				db.Stop()
			}
			db = db.Reopen()
			st.classes["statement-after-"+sp.Reopen+"-restart"] = true
		}
		for rep := 0; rep < reps; rep++ {
			var parked *dbh.Txn
			if sp.Conflict && sp.S != nil {
				// another transaction takes exclusive locks on the whole table (updates every row in place)
				parked = db.Begin()
				def := defOf(c, sp.S.Table)
				col := def.Cols[len(def.Cols)-1]
				var v dbh.Val
				switch col.T {
				case "i":
					v = dbh.IntV(424242)
				case "f":
					v = dbh.FloatV(4242.5)
				default:
					v = dbh.StrV("parked")
				}
				if sp.Shared {
					parked.Exec(&dbh.Stmt{Kind: "select", Table: def.Name})
					st.classes["conflict-with-reader"] = true
				} else {
					parked.Exec(&dbh.Stmt{Kind: "update", Table: def.Name, Set: []dbh.SetItem{{Col: col.Name, V: v}}})
				}
			}
			before := db.PinnedPages()
			t := held
			held = nil
			if t == nil || t.Done {
				t = db.Begin()
			} else {
				st.classes["statement-inside-a-running-transaction"] = true
			}
			var shape []string
			var err error
			desc := ""
			switch {
			case sp.Bad != "":
				sql := map[string]string{
					"unknown-column": "SELECT nosuchcol FROM " + c.Defs[0].Name + " WHERE nosuchcol = 1;",
					"type-error":     "INSERT INTO " + c.Defs[0].Name + "(" + c.Defs[0].Cols[0].Name + ") VALUES ('zzz', 1, 2, 3, 4, 5);",
					"unknown-table":  "SELECT a FROM nosuchtable WHERE a = 1;",
				}[sp.Bad]
				desc = sql
				_, err = t.ExecSQL(sql, nil)
				st.classes["failing-statement"] = true
			case sp.S != nil:
				desc = sp.S.String()
				plan, sh, perr := t.PlanStmt(sp.S)
				shape, err = sh, perr
				if plan != nil {
					_, err = t.RunPlan(plan)
				}
			default:
				desc = sp.J.String()
				plan, sh, perr := t.PlanJoin(sp.J)
				shape, err = sh, perr
				if plan != nil {
					_, err = t.RunPlan(plan)
				}
			}
			outcome := "completed"
			if t.Done {
				outcome = "aborted-by-engine"
				st.classes["aborted-statement"] = true
			} else if sp.Hold && rep == reps-1 && si+1 < len(c.Steps) && parked == nil {
				held = t
				outcome = "transaction-kept-open"
			} else if sp.End == "abort" {
				t.Abort()
				outcome = "explicit-abort"
			} else {
				t.Commit()
			}
			if err != nil && !t.Aborted {
				outcome = "failed:" + outcome
			}
			for _, n := range shape {
				st.classes["plan:"+n] = true
			}
			if parked != nil {
				parked.Abort()
			}
			after := db.PinnedPages()
			if d := diffPins(before, after); d != "" {
				cls := "pin-leak"
				for _, n := range shape {
					if strings.HasSuffix(n, "Join") {
						cls = "pin-leak:" + n
						break
					}
				}
				return vf.Failf(cls, "step %d (repetition %d) %s [%s, plan %v]: pinned frames changed: %s", si, rep, desc, outcome, shape, d)
			}
			if len(shape) > 0 {
				st.nontrivial++
			}
		}
	}
	return nil
}

func defOf(c *Case, name string) *dbh.TableDef {
	for i := range c.Defs {
		if c.Defs[i].Name == name {
			return &c.Defs[i]
		}
	}
	panic("no table " + name)
}

var sess *vf.Session

func genCase(t *rapid.T) *Case {
	c := &Case{}
	prof := sqlgen.Profile{MaxStr: 60}
	if sess != nil && sess.ExclusionOn("null-in-indexed-column") {
		prof.NoNullIndexed = true
	}
	if sess != nil && sess.ExclusionOn("sentinel-strings") {
		prof.NoSentinelStr = true
	}
	c.Defs = sqlgen.JoinTables(t, rapid.SampledFrom([]int{2, 2, 3}).Draw(t, "ntables")) // three tables: chains / stars, where the optimizer also picks nested loop joins
	nIdx := 0
	for _, d := range c.Defs {
		for _, cl := range d.Cols {
			if cl.Idx != dbh.IdxNone {
				nIdx++
			}
		}
	}
	frames := 3*nIdx + 6 + rapid.SampledFrom([]int{2, 6, 20, 60}).Draw(t, "spare")
	c.KB = frames * 4
	payload := int32(0)
	for i := range c.Defs {
		n := rapid.SampledFrom([]int{0, 3, 12, 60, 250}).Draw(t, "nrows")
		if len(c.Defs) == 3 && n > 40 {
			n = 40 // a three-table nested loop join visits the whole cross product
		}
		var rows []dbh.Row
		for r := 0; r < n; r++ {
			payload++
			rows = append(rows, sqlgen.JoinRow(t, &c.Defs[i], prof, payload))
		}
		c.Rows = append(c.Rows, rows)
		c.Stats = append(c.Stats, rapid.SampledFrom([]string{"", "low", "fresh", "fresh"}).Draw(t, "stats"))
	}
	c.File = rapid.IntRange(0, 3).Draw(t, "file") == 0
	joinsOff := sess != nil && sess.ExclusionOn("hash-join-pin-leak")
	ns := rapid.IntRange(1, 10).Draw(t, "nsteps")
	for i := 0; i < ns; i++ {
		sp := Step{End: rapid.SampledFrom([]string{"commit", "commit", "abort"}).Draw(t, "end")}
		def := &c.Defs[rapid.IntRange(0, 1).Draw(t, "tbl")]
		switch k := rapid.IntRange(0, 12).Draw(t, "kind"); {
		case k <= 2:
			s := sqlgen.Select(t, def, prof)
			sp.S = &s
		case k == 3:
			s := sqlgen.Insert(t, def, prof)
			if rapid.Bool().Draw(t, "big") { // rows large enough to allocate new heap pages
				for ri := range s.Rows {
					for ci, cl := range def.Cols {
						if cl.T == "s" {
							s.Rows[ri][ci] = dbh.StrV(strings.Repeat("p", 50))
						}
					}
				}
			}
			sp.S = &s
			sp.Repeat = rapid.SampledFrom([]int{1, 1, 30}).Draw(t, "rep")
		case k <= 5:
			s := sqlgen.Update(t, def, prof)
			sp.S = &s
		case k == 6:
			s := sqlgen.Delete(t, def, prof)
			sp.S = &s
		case k <= 9:
			if joinsOff {
				sess.Excluded("hash-join-pin-leak")
				s := sqlgen.Select(t, def, prof)
				sp.S = &s
			} else {
				q := sqlgen.JoinQ(t, c.Defs)
				sp.J = &q
				sp.Repeat = rapid.SampledFrom([]int{1, 1, 5}).Draw(t, "rep")
			}
		case k == 10:
			sp.Bad = rapid.SampledFrom([]string{"unknown-column", "type-error", "unknown-table"}).Draw(t, "bad")
		default:
			s := sqlgen.Update(t, def, prof)
			if rapid.Bool().Draw(t, "cdel") {
				s = sqlgen.Delete(t, def, prof)
			}
			sp.S = &s
			sp.Conflict = true
			sp.Shared = rapid.Bool().Draw(t, "cshared")
		}
		if c.File && rapid.IntRange(0, 3).Draw(t, "reopen") == 0 {
			sp.Reopen = rapid.SampledFrom([]string{"clean", "clean", "crash"}).Draw(t, "reopenkind")
		}
		if sp.S != nil && !sp.Conflict && (sp.S.Kind == "delete" || sp.S.Kind == "update" || sp.S.Kind == "insert") && sp.Repeat <= 1 && rapid.IntRange(0, 2).Draw(t, "hold") == 0 {
			// the same transaction goes on reading the table it has just changed (own deletes / updates / inserts)
			sp.Hold = true
			c.Steps = append(c.Steps, sp)
			nf := rapid.IntRange(1, 2).Draw(t, "nfollow")
			for f := 0; f < nf; f++ {
				d2 := defOf(c, sp.S.Table)
				q := sqlgen.Select(t, d2, prof)
				c.Steps = append(c.Steps, Step{S: &q, End: sp.End, Hold: f+1 < nf})
			}
			continue
		}
		c.Steps = append(c.Steps, sp)
	}
	return c
}

const rule = "Case = (two or three tables with skip-list / no indexes, 0-250 rows each, pool from the minimum (3 frames per skip-list index + 8) to +60 frames; 1-10 steps: SELECT (sequential / index range scans, selection, projection), INSERT (also 30x repeated with rows that allocate new heap pages), UPDATE (in place and relocating), DELETE, join queries (hash / index / nested loop join as the optimizer chooses under the tables' statistics states none / computed after 2 rows / fresh, 5x repeated), statistics updates, statements that fail (unknown column/table, type error), UPDATE / DELETE statements aborted by a lock conflict with a parked transaction that wrote the table (the scan is refused) or only read it (the scan succeeds, the lock upgrade is refused); each ended by commit or abort, or followed inside the same transaction by SELECTs of the table it has just changed). A quarter of the cases are file-backed and restart the database (clean shutdown, or stop without flush + recovery) before some steps, so statements also run as the first ones on freshly initialised table heaps. Oracle: with no other transaction active, every page with a positive pin count in BufferPoolManager.GetPages() after the statement and its commit/abort already had a positive pin count before it (pin-count growth on pages that were pinned before is recorded as a class, not a violation). Non-trivial = a statement that was planned and executed (plan shape recorded as class)."

var assumptions = []string{
	"CREATE TABLE is outside the statement list (each skip-list index keeps 3 pages pinned for its lifetime by design)",
	"B-tree / hash indexed tables are excluded (not supported on the front end; the B-tree container keeps its own bounded cache pinned)",
	"single goroutine, background threads disabled (hook H2), in-memory storage (file-backed in the cases with restarts)",
}

func TestSearch(t *testing.T) {
	s := vf.Open("C14")
	s.Rule, s.Assumptions = rule, assumptions
	sess = s
	defer func() { s.Flush(!t.Failed()) }()
	rapid.Check(t, func(rt *rapid.T) {
		c := genCase(rt)
		f, st := runCase(c)
		var cls []string
		for k := range st.classes {
			cls = append(cls, k)
		}
		s.Count(c, st.nontrivial > 0, cls...)
		s.Judge(rt, c, f)
	})
}

func TestReplay(t *testing.T) {
	s := vf.Open("C14")
	s.Rule, s.Assumptions = rule, assumptions
	defer func() { s.Flush(true) }()
	s.Replay(func(raw json.RawMessage) *vf.Failure {
		var c Case
		if err := json.Unmarshal(raw, &c); err != nil {
			return vf.Failf("bad-case", "%v", err)
		}
		f, _ := runCase(&c)
		return f
	})
}

var _ = pinsStr
