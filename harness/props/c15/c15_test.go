// C15 — Slotted pages never corrupt or lose a stored row.
// Generated sequences of InsertTuple/UpdateTuple/MarkDelete/ApplyDelete/RollbackDelete/GetTuple on one
// TablePage, compared with a map model (rid -> bytes, state) plus raw-byte layout invariants.
package c15

import (
	"bytes"
	"encoding/json"
	"fmt"
	"sort"
	"testing"

	"github.com/ryogrid/SamehadaDB/lib/common"
	"github.com/ryogrid/SamehadaDB/lib/recovery"
	"github.com/ryogrid/SamehadaDB/lib/storage/access"
	"github.com/ryogrid/SamehadaDB/lib/storage/disk"
	"github.com/ryogrid/SamehadaDB/lib/storage/index/index_constants"
	"github.com/ryogrid/SamehadaDB/lib/storage/page"
	"github.com/ryogrid/SamehadaDB/lib/storage/table/column"
	"github.com/ryogrid/SamehadaDB/lib/storage/table/schema"
	"github.com/ryogrid/SamehadaDB/lib/storage/tuple"
	"github.com/ryogrid/SamehadaDB/lib/types"
	"pgregory.net/rapid"

	"verifharness/vf"
)

const (
	opInsert = "ins"
	opUpdate = "upd"
	opMark   = "mark"
	opApply  = "apply"
	opRollb  = "rollb"
	opGet    = "get"
	opLock   = "lock"   // locking mode: a second transaction takes the exclusive lock of the slot the next insert would use
	opUnlock = "unlock" // ... and releases its locks
)

// Size encoding: >0 literal; -1 = exactly the space the page will still accept for a new row,
// -2 = that plus one, -3 = that minus one (evaluated against the model when the op runs).
type Op struct {
	K      string `json:"k"`
	Target int    `json:"t,omitempty"` // index into the slot list (mod count)
	Size   int    `json:"n,omitempty"`
	Fill   byte   `json:"f,omitempty"`
	Rollb  bool   `json:"r,omitempty"` // UpdateTuple's isRollbackOrUndo flag
	Col    int    `json:"c,omitempty"` // schema mode, update: 0 = whole row, 1 / 2 = only column a / b (the update executor's form: column index list + schema)
}

type Case struct {
	Locking bool `json:"locking"`          // false: recovery-phase transaction (no locks); true: real lock manager, one transaction
	Schema  bool `json:"schema,omitempty"` // rows are tuples of a two-varchar schema (a, b) instead of raw bytes, so that UPDATEs of a column subset can be issued
	Ops     []Op `json:"ops"`
}

const (
	stEmpty = iota
	stLive
	stMarked
)

type mslot struct {
	st   int
	data []byte
	vals [2]string // schema mode: the column values
}

var sc2 = schema.NewSchema([]*column.Column{column.NewColumn("a", types.Varchar, false, index_constants.IndexKindInvalid, types.PageID(-1), nil),
	column.NewColumn("b", types.Varchar, false, index_constants.IndexKindInvalid, types.PageID(-1), nil)})

func tuple2(a, b string) *tuple.Tuple {
	return tuple.NewTupleFromSchema([]types.Value{types.NewVarchar(a), types.NewVarchar(b)}, sc2)
}

var base2 = int(tuple2("", "").Size()) // bytes of a two-varchar tuple besides the characters

func str(n int, fill byte, salt int) string {
	if n < 0 {
		n = 0
	}
	b := make([]byte, n)
	for i := range b {
		b[i] = 'a' + (fill+byte(i*7)+byte(salt))%26
	}
	return string(b)
}

type stats struct {
	otherLocks int // locks taken by the second transaction on the slot the next insert would use
	partialUpd int // schema mode: updates issued for a column subset
	shiftOps   int // accepted size-changing update / applied delete that had to move other rows' bytes, with >=2 other rows
	accepted   int
	refused    int
	slotReuse  int
	fullPage   bool
	growOK     int
	shrinkOK   int
	refusedUpd int
}

const hdr = 24

func mkData(n int, fill byte, salt int) []byte {
	b := make([]byte, n)
	for i := range b {
		b[i] = fill + byte(i*7) + byte(salt)
	}
	return b
}

func runCase(c *Case) (*vf.Failure, *stats) {
	st := &stats{}
	f := vf.Guard(func() *vf.Failure { return run(c, st) })
	return f, st
}

func run(c *Case, st *stats) *vf.Failure {
	var dm disk.DiskManager = disk.NewVirtualDiskManagerImpl("c15.db")
	lm := recovery.NewLogManager(&dm) // logging stays disabled
	lockMgr := access.NewLockManager(access.STRICT, access.SS2PLMode)
	txn := access.NewTransaction(types.TxnID(1))
	if !c.Locking {
		txn.SetIsRecoveryPhase(true)
	}
	buf := new([common.PageSize]byte)
	pg := page.NewEmpty(types.PageID(7), buf)
	tp := access.CastPageAsTablePage(pg)
	tp.Init(types.PageID(7), types.PageID(3), lm, lockMgr, txn, false)
	tp.SetLSN(types.LSN(0x11223344))
	hdrWant := append([]byte{}, tp.Data()[0:16]...)

	var slots []mslot
	remaining := func() int { // model of "space still free"
		used := 0
		for _, s := range slots {
			if s.st != stEmpty {
				used += len(s.data)
			}
		}
		return common.PageSize - hdr - 8*len(slots) - used
	}

	check := func(step int, op Op) *vf.Failure {
		d := tp.Data()
		if !bytes.Equal(d[0:16], hdrWant) {
			return vf.Failf("header-changed", "step %d %+v: page id/LSN/prev/next bytes changed: % x", step, op, d[0:16])
		}
		if int(tp.GetTupleCount()) != len(slots) {
			return vf.Failf("count", "step %d %+v: tuple count %d, model %d", step, op, tp.GetTupleCount(), len(slots))
		}
		type reg struct{ off, size, slot int }
		var regs []reg
		sum := 0
		for i, s := range slots {
			off := int(tp.GetTupleOffsetAtSlot(uint32(i)))
			rawSize := tp.GetTupleSize(uint32(i))
			size := int(access.UnsetDeletedFlag(rawSize))
			marked := rawSize != 0 && rawSize&(1<<31) != 0
			switch s.st {
			case stEmpty:
				if rawSize != 0 {
					return vf.Failf("empty-slot-size", "step %d %+v: slot %d should be empty, size field %#x", step, op, i, rawSize)
				}
				continue
			case stLive:
				if marked {
					return vf.Failf("state", "step %d %+v: slot %d is live in the model but carries the delete mark", step, op, i)
				}
			case stMarked:
				if !marked {
					return vf.Failf("state", "step %d %+v: slot %d is delete-marked in the model but not on the page", step, op, i)
				}
			}
			if size != len(s.data) {
				return vf.Failf("size", "step %d %+v: slot %d size %d, stored %d bytes", step, op, i, size, len(s.data))
			}
			if off < 0 || off+size > common.PageSize {
				return vf.Failf("bounds", "step %d %+v: slot %d region [%d,%d) outside the page", step, op, i, off, off+size)
			}
			if !bytes.Equal(d[off:off+size], s.data) {
				return vf.Failf("row-bytes", "step %d %+v: slot %d bytes differ from what was last stored (off %d size %d)", step, op, i, off, size)
			}
			regs = append(regs, reg{off, size, i})
			sum += size
			if s.st == stLive {
				rid := &page.RID{}
				rid.Set(types.PageID(7), uint32(i))
				tpl, err := tp.GetTuple(rid, lm, lockMgr, txn)
				if err != nil || tpl == nil {
					return vf.Failf("get-live", "step %d %+v: GetTuple of live slot %d failed: %v", step, op, i, err)
				}
				if int(tpl.Size()) != len(s.data) || !bytes.Equal(tpl.Data()[:tpl.Size()], s.data) {
					return vf.Failf("get-bytes", "step %d %+v: GetTuple of slot %d returned other bytes", step, op, i)
				}
			}
		}
		fsp := int(tp.GetFreeSpacePointer())
		if fsp != common.PageSize-sum {
			return vf.Failf("free-space", "step %d %+v: free space pointer %d, but rows occupy %d bytes (expected %d)", step, op, fsp, sum, common.PageSize-sum)
		}
		if fsp < hdr+8*len(slots) {
			return vf.Failf("overlap-header", "step %d %+v: free space pointer %d inside header+slot array (%d)", step, op, fsp, hdr+8*len(slots))
		}
		sort.Slice(regs, func(a, b int) bool { return regs[a].off < regs[b].off })
		pos := fsp
		for _, r := range regs {
			if r.off != pos {
				return vf.Failf("tiling", "step %d %+v: slot %d starts at %d, expected %d (rows must tile [fsp,4096) without gap or overlap)", step, op, r.slot, r.off, pos)
			}
			pos += r.size
		}
		if pos != common.PageSize {
			return vf.Failf("tiling", "step %d %+v: rows end at %d", step, op, pos)
		}
		return nil
	}

	size := func(op Op) int {
		n := op.Size
		switch n {
		case -1:
			n = remaining() - 8
		case -2:
			n = remaining() - 8 + 1
		case -3:
			n = remaining() - 8 - 1
		}
		if n < 1 {
			n = 1
		}
		return n
	}
	others := func(skip int) int {
		n := 0
		for i, s := range slots {
			if i != skip && s.st != stEmpty {
				n++
			}
		}
		return n
	}

	txn2 := access.NewTransaction(types.TxnID(2))
	var locked2 []page.RID
	for step, op := range c.Ops {
		before := *tp.Data()
		var tgt int
		if len(slots) > 0 {
			tgt = ((op.Target % len(slots)) + len(slots)) % len(slots)
		}
		rid := &page.RID{}
		rid.Set(types.PageID(7), uint32(tgt))
		switch op.K {
		case opLock:
			if !c.Locking {
				continue
			}
			cand := len(slots)
			for i, sl := range slots {
				if sl.st == stEmpty {
					cand = i
					break
				}
			}
			r := page.RID{}
			r.Set(types.PageID(7), uint32(cand))
			if lockMgr.LockExclusive(txn2, &r) {
				locked2 = append(locked2, r)
				st.otherLocks++
			}
		case opUnlock:
			if len(locked2) > 0 {
				lockMgr.Unlock(txn2, locked2)
				locked2 = nil
			}
		case opInsert:
			n := size(op)
			data := mkData(n, op.Fill, step)
			tpl := tuple.NewTuple(nil, uint32(n), data)
			var vals [2]string
			if c.Schema {
				chars := n - base2
				vals = [2]string{str(chars/3, op.Fill, step), str(chars-chars/3, op.Fill+1, step)}
				tpl = tuple2(vals[0], vals[1])
				n = int(tpl.Size())
				data = append([]byte{}, tpl.Data()[:n]...)
			}
			got, err := tp.InsertTuple(tpl, lm, lockMgr, txn)
			if err != nil || got == nil {
				st.refused++
				if *tp.Data() != before {
					return vf.Failf("refused-changed", "step %d %+v: refused insert of %d bytes changed the page", step, op, n)
				}
				if remaining() < 9 {
					st.fullPage = true
				}
				break
			}
			st.accepted++
			s := int(got.GetSlotNum())
			if got.GetPageID() != types.PageID(7) || s > len(slots) {
				return vf.Failf("rid", "step %d %+v: insert returned rid %v with %d slots", step, op, *got, len(slots))
			}
			if s == len(slots) {
				slots = append(slots, mslot{})
			} else {
				if slots[s].st != stEmpty {
					return vf.Failf("slot-in-use", "step %d %+v: insert was given slot %d which still holds a row", step, op, s)
				}
				st.slotReuse++
			}
			slots[s] = mslot{stLive, data, vals}
		case opUpdate:
			if len(slots) == 0 {
				continue
			}
			n := size(op)
			if op.Size < 0 { // relative sizes: relative to what an update of this row can take
				n = remaining() + len(slots[tgt].data) + (map[int]int{-1: 0, -2: 1, -3: -1}[op.Size])
				if n < 1 {
					n = 1
				}
			}
			data := mkData(n, op.Fill, step)
			newT := tuple.NewTuple(nil, uint32(n), data)
			var cols []int
			var usc *schema.Schema
			vals := slots[tgt].vals
			if c.Schema {
				// n is the size the row shall have afterwards; the characters go to the updated column(s)
				switch op.Col {
				case 1:
					vals[0] = str(n-base2-len(vals[1]), op.Fill, step)
					null := *types.NewVarchar("").SetNull()
					newT = tuple.NewTupleFromSchema([]types.Value{types.NewVarchar(vals[0]), null}, sc2)
					cols, usc = []int{0}, sc2
				case 2:
					vals[1] = str(n-base2-len(vals[0]), op.Fill, step)
					null := *types.NewVarchar("").SetNull()
					newT = tuple.NewTupleFromSchema([]types.Value{null, types.NewVarchar(vals[1])}, sc2)
					cols, usc = []int{1}, sc2
				default:
					chars := n - base2
					vals = [2]string{str(chars/3, op.Fill, step), str(chars-chars/3, op.Fill+1, step)}
					newT = tuple2(vals[0], vals[1])
				}
				want := tuple2(vals[0], vals[1])
				n = int(want.Size())
				data = append([]byte{}, want.Data()[:n]...)
				if cols != nil {
					st.partialUpd++
				}
			}
			oldT := new(tuple.Tuple)
			off0 := int(tp.GetTupleOffsetAtSlot(uint32(tgt)))
			ok, _, _ := tp.UpdateTuple(newT, cols, usc, oldT, rid, txn, lockMgr, lm, op.Rollb)
			if !ok {
				st.refused++
				st.refusedUpd++
				if *tp.Data() != before {
					return vf.Failf("refused-changed", "step %d %+v: refused update (slot %d, %d bytes) changed the page", step, op, tgt, n)
				}
				break
			}
			if slots[tgt].st != stLive {
				return vf.Failf("update-nonlive", "step %d %+v: update of a slot that holds no live row was accepted", step, op)
			}
			st.accepted++
			if oldT.Size() != uint32(len(slots[tgt].data)) || !bytes.Equal(oldT.Data()[:oldT.Size()], slots[tgt].data) {
				return vf.Failf("old-image", "step %d %+v: old image returned by update differs from the stored row", step, op)
			}
			old := len(slots[tgt].data)
			if n != old && off0 > int(types.NewUInt32FromBytes(before[16:20])) && others(tgt) >= 2 {
				st.shiftOps++
			}
			if n > old {
				st.growOK++
			} else if n < old {
				st.shrinkOK++
			}
			slots[tgt].data = data
			slots[tgt].vals = vals
		case opMark:
			if len(slots) == 0 {
				continue
			}
			ok, _ := tp.MarkDelete(rid, txn, lockMgr, lm)
			if ok {
				if slots[tgt].st != stLive {
					return vf.Failf("mark-nonlive", "step %d %+v: MarkDelete of a non-live slot succeeded", step, op)
				}
				slots[tgt].st = stMarked
				st.accepted++
			} else {
				st.refused++
				if slots[tgt].st == stLive {
					return vf.Failf("mark-refused", "step %d %+v: MarkDelete of live slot %d refused", step, op, tgt)
				}
				if *tp.Data() != before {
					return vf.Failf("refused-changed", "step %d %+v: refused MarkDelete changed the page", step, op)
				}
			}
		case opApply:
			if len(slots) == 0 || slots[tgt].st == stEmpty {
				continue // callers apply only to existing rows (commit of a marked row / rollback of an insert)
			}
			off0 := int(tp.GetTupleOffsetAtSlot(uint32(tgt)))
			tp.ApplyDelete(rid, txn, lm)
			if off0 > int(types.NewUInt32FromBytes(before[16:20])) && others(tgt) >= 2 {
				st.shiftOps++
			}
			st.accepted++
			slots[tgt] = mslot{}
		case opRollb:
			if len(slots) == 0 || slots[tgt].st != stMarked {
				continue // callers roll back only their own delete marks
			}
			tp.RollbackDelete(rid, txn, lm)
			st.accepted++
			slots[tgt].st = stLive
		case opGet:
			if len(slots) == 0 {
				continue
			}
			tpl, err := tp.GetTuple(rid, lm, lockMgr, txn)
			if slots[tgt].st == stLive {
				if err != nil || tpl == nil || !bytes.Equal(tpl.Data()[:tpl.Size()], slots[tgt].data) {
					return vf.Failf("get-live", "step %d %+v: GetTuple of live slot %d: err=%v", step, op, tgt, err)
				}
			} else if err == nil {
				return vf.Failf("get-dead", "step %d %+v: GetTuple of a deleted/marked slot %d returned a row without error", step, op, tgt)
			}
			if *tp.Data() != before {
				return vf.Failf("get-changed", "step %d %+v: GetTuple changed the page", step, op)
			}
		default:
			panic("bad op " + op.K)
		}
		if f := check(step, op); f != nil {
			return f
		}
	}
	return nil
}

var sizeDict = []int{1, 2, 7, 8, 9, 100, 1000, -1, -2, -3, 4064, 4063, 4065, 2032, 2028}

func genOp(t *rapid.T) Op {
	k := rapid.SampledFrom([]string{opInsert, opInsert, opInsert, opInsert, opInsert, opInsert, opUpdate, opUpdate, opUpdate, opUpdate, opUpdate, opUpdate, opMark, opMark, opApply, opApply, opApply, opApply, opRollb, opRollb, opGet, opGet, opLock, opUnlock}).Draw(t, "k")
	op := Op{K: k}
	if k != opInsert {
		op.Target = rapid.IntRange(0, 40).Draw(t, "t")
	}
	if k == opInsert || k == opUpdate {
		switch rapid.IntRange(0, 3).Draw(t, "szk") {
		case 0:
			op.Size = rapid.SampledFrom(sizeDict).Draw(t, "sz")
		case 1:
			op.Size = rapid.IntRange(1, 64).Draw(t, "sz")
		case 2:
			op.Size = rapid.IntRange(1, 600).Draw(t, "sz")
		default:
			op.Size = rapid.IntRange(1, 4100).Draw(t, "sz")
		}
		op.Fill = rapid.Byte().Draw(t, "f")
	}
	if k == opUpdate {
		op.Rollb = rapid.Bool().Draw(t, "r")
		op.Col = rapid.IntRange(0, 2).Draw(t, "col")
	}
	return op
}

func genCase(t *rapid.T) *Case {
	nops := rapid.SampledFrom([]int{8, 8, 15, 30, 60, 90}).Draw(t, "nops") // rapid's own slice lengths are mostly short
	return &Case{
		Locking: rapid.Bool().Draw(t, "locking"),
		Schema:  rapid.IntRange(0, 2).Draw(t, "schema") == 0,
		Ops:     rapid.SliceOfN(rapid.Custom(genOp), nops, 90).Draw(t, "ops"),
	}
}

const rule = "Case = generated sequence (8-90 ops) of InsertTuple/UpdateTuple(grow/shrink/same, rollback flag on/off)/MarkDelete/ApplyDelete/RollbackDelete/GetTuple on one 4096-byte TablePage, sizes from a boundary dictionary (1,2,7,8,9,100,1000,exact remaining space and +-1,4064) and uniform ranges, with and without a lock manager (with it, a second transaction sometimes holds the lock of the slot the next insert would take, so that the insert is refused for its lock); in a third of the cases the rows are tuples of a two-varchar schema and updates are also issued for a column subset (column index list + schema, as the update executor does). Non-trivial = some accepted size-changing update or applied delete hit a row that was not at the free-space pointer (other rows' bytes had to shift) while >= 2 other rows were stored."

var assumptions = []string{
	"logging disabled (log-record side effects are outside this property)",
	"ApplyDelete only on slots holding a row, RollbackDelete only on delete-marked slots (what Commit/Abort do)",
	"a refused insert/update is not a violation by itself; only 'refused => page bytes unchanged' and 'accepted => all invariants' are asserted",
}

func TestSearch(t *testing.T) {
	s := vf.Open("C15")
	s.Rule, s.Assumptions = rule, assumptions
	defer func() { s.Flush(!t.Failed()) }()
	rapid.Check(t, func(rt *rapid.T) {
		c := genCase(rt)
		f, st := runCase(c)
		cls := []string{}
		if st.slotReuse > 0 {
			cls = append(cls, "slot-reuse")
		}
		if st.fullPage {
			cls = append(cls, "full-page")
		}
		if st.growOK > 0 {
			cls = append(cls, "grow-accepted")
		}
		if st.shrinkOK > 0 {
			cls = append(cls, "shrink-accepted")
		}
		if st.refusedUpd > 0 {
			cls = append(cls, "update-refused")
		}
		if c.Locking {
			cls = append(cls, "with-lock-manager")
		}
		s.Count(c, st.shiftOps > 0 && st.accepted > 0, cls...)
		s.Judge(rt, c, f)
	})
}

func TestReplay(t *testing.T) {
	s := vf.Open("C15")
	s.Rule, s.Assumptions = rule, assumptions
	defer func() { s.Flush(true) }()
	s.Replay(func(raw json.RawMessage) *vf.Failure {
		var c Case
		if err := json.Unmarshal(raw, &c); err != nil {
			return vf.Failf("bad-case", "%v", err)
		}
		f, _ := runCase(&c)
		return f
	})
}

var _ = fmt.Sprint
