// C16 — Row locks follow the shared/exclusive compatibility rules until transaction end.
// (1) bounded-exhaustive: every sequence up to depth D over {S,X,U} x 3 txns x 2 rows + release-all x 3;
// (2) rapid sequences with more transactions / rows / length; (3) goroutine histories checked by porcupine.
package c16

import (
	"encoding/json"
	"fmt"
	"os"
	"strconv"
	"testing"

	"github.com/ryogrid/SamehadaDB/lib/recovery"
	"github.com/ryogrid/SamehadaDB/lib/storage/access"
	"github.com/ryogrid/SamehadaDB/lib/storage/disk"
	"github.com/ryogrid/SamehadaDB/lib/storage/page"
	"github.com/ryogrid/SamehadaDB/lib/types"
	"pgregory.net/rapid"

	"verifharness/vf"
)

const (
	kS = 0
	kX = 1
	kU = 2
	kR = 3 // release-all (commit or abort through the TransactionManager)
)

type Op struct {
	K   int  `json:"k"` // 0 S, 1 X, 2 upgrade, 3 release-all
	T   int  `json:"t"`
	R   int  `json:"r,omitempty"`
	Abt bool `json:"abort,omitempty"` // release-all by Abort instead of Commit
}

type Case struct {
	NTxn int  `json:"ntxn"`
	NRow int  `json:"nrow"`
	Ops  []Op `json:"ops"`
}

var kname = []string{"S", "X", "U", "REL"}

func (o Op) String() string {
	if o.K == kR {
		return fmt.Sprintf("REL(t%d)", o.T)
	}
	return fmt.Sprintf("%s(t%d,r%d)", kname[o.K], o.T, o.R)
}

// model: per row, the set of shared holders (bitmask) and the exclusive holder (-1 none)
type model struct {
	s []uint32
	x []int
}

func newModel(nrow int) *model {
	m := &model{s: make([]uint32, nrow), x: make([]int, nrow)}
	for i := range m.x {
		m.x[i] = -1
	}
	return m
}

// grant decides the request and applies it; contended = another transaction holds a lock on the row
func (m *model) request(k, t, r int) (grant bool, contended bool) {
	others := m.s[r] &^ (1 << uint(t))
	contended = others != 0 || (m.x[r] >= 0 && m.x[r] != t)
	switch k {
	case kS:
		if m.x[r] >= 0 && m.x[r] != t {
			return false, contended
		}
		if m.x[r] != t {
			m.s[r] |= 1 << uint(t)
		}
		return true, contended
	case kX, kU:
		if (m.x[r] >= 0 && m.x[r] != t) || others != 0 {
			return false, contended
		}
		m.x[r] = t
		return true, contended
	}
	panic("bad k")
}

func (m *model) release(t int) {
	for r := range m.s {
		m.s[r] &^= 1 << uint(t)
		if m.x[r] == t {
			m.x[r] = -1
		}
	}
}

func (m *model) holdsS(t, r int) bool { return m.s[r]&(1<<uint(t)) != 0 }

type env struct {
	lm   *access.LockManager
	tm   *access.TransactionManager
	txns []*access.Transaction
	rids []page.RID
}

var sharedDM disk.DiskManager = disk.NewVirtualDiskManagerImpl("c16.db")
var sharedLog = recovery.NewLogManager(&sharedDM)

func newEnv(ntxn, nrow int) *env {
	e := &env{}
	e.lm = access.NewLockManager(access.STRICT, access.SS2PLMode)
	logMgr := sharedLog // logging disabled, never written
	e.tm = access.NewTransactionManager(e.lm, logMgr)
	for i := 0; i < ntxn; i++ {
		e.txns = append(e.txns, e.tm.Begin(nil))
	}
	for r := 0; r < nrow; r++ {
		rid := page.RID{}
		rid.Set(types.PageID(3+r/2), uint32(r%2))
		e.rids = append(e.rids, rid)
	}
	return e
}

type verdict struct {
	skipped   bool // precondition (upgrade without S) not met
	skipAt    int  // index of the op whose precondition failed
	contended int
	denied    int
}

// runOps executes ops on a fresh lock manager against the model. It returns a failure on the first
// disagreement. finalProbe additionally checks the lock table through fresh probing transactions.
func runOps(ntxn, nrow int, ops []Op, finalProbe bool) (*vf.Failure, verdict) {
	var v verdict
	e := newEnv(ntxn, nrow)
	m := newModel(nrow)
	for i, op := range ops {
		if op.K == kR {
			if op.Abt {
				e.tm.Abort(nil, e.txns[op.T])
			} else {
				e.tm.Commit(nil, e.txns[op.T])
			}
			m.release(op.T)
			e.txns[op.T] = e.tm.Begin(nil) // a finished transaction object is never used again
			continue
		}
		if op.K == kU && !m.holdsS(op.T, op.R) {
			v.skipAt = i
			v.skipped = true // callers upgrade only while holding S (table_page.go); LockUpgrade panics otherwise by design
			return nil, v
		}
		txn := e.txns[op.T]
		rid := e.rids[op.R]
		var got bool
		switch op.K {
		case kS:
			got = e.lm.LockShared(txn, &rid)
		case kX:
			got = e.lm.LockExclusive(txn, &rid)
		case kU:
			got = e.lm.LockUpgrade(txn, &rid)
		}
		want, contended := m.request(op.K, op.T, op.R)
		if contended {
			v.contended++
		}
		if !want {
			v.denied++
		}
		if got != want {
			cls := "granted-incompatible"
			if want {
				cls = "denied-compatible"
			}
			return vf.Failf(cls, "op %d %v: lock manager answered %v, compatibility rules say %v (history %v)", i, op, got, want, ops[:i+1]), v
		}
		// the transaction's own view of what it holds
		for t := 0; t < ntxn; t++ {
			for r := 0; r < nrow; r++ {
				tx := e.txns[t]
				rr := e.rids[r]
				hx := tx.IsExclusiveLocked(&rr)
				hs := tx.IsSharedLocked(&rr)
				if hx != (m.x[r] == t) {
					return vf.Failf("holder-view", "after op %d %v: t%d IsExclusiveLocked(r%d)=%v, model %v (history %v)", i, op, t, r, hx, m.x[r] == t, ops[:i+1]), v
				}
				if (hs || hx) != (m.holdsS(t, r) || m.x[r] == t) {
					return vf.Failf("holder-view", "after op %d %v: t%d holds-some-lock(r%d)=%v, model %v (history %v)", i, op, t, r, hs || hx, m.holdsS(t, r) || m.x[r] == t, ops[:i+1]), v
				}
			}
		}
	}
	if finalProbe {
		// Observe the lock table itself: a fresh transaction gets S iff nobody holds X, and X iff nobody holds anything.
		for r := 0; r < nrow; r++ {
			rr := e.rids[r]
			p1 := e.tm.Begin(nil)
			gotS := e.lm.LockShared(p1, &rr)
			e.tm.Commit(nil, p1)
			p2 := e.tm.Begin(nil)
			gotX := e.lm.LockExclusive(p2, &rr)
			e.tm.Commit(nil, p2)
			wantS := m.x[r] < 0
			wantX := m.x[r] < 0 && m.s[r] == 0
			if gotS != wantS || gotX != wantX {
				return vf.Failf("table-state", "after %v: probe on r%d got S=%v X=%v, model says S=%v X=%v (a lock vanished before its transaction ended, or outlived it)", ops, r, gotS, gotX, wantS, wantX), v
			}
		}
	}
	// end all transactions so the global latch is released (hygiene; the manager is discarded anyway)
	for _, tx := range e.txns {
		e.tm.Commit(nil, tx)
	}
	return nil, v
}

func runCase(c *Case) (*vf.Failure, verdict) {
	var v verdict
	f := vf.Guard(func() *vf.Failure {
		var ff *vf.Failure
		ff, v = runOps(c.NTxn, c.NRow, c.Ops, true)
		return ff
	})
	return f, v
}

const rule = "Case = sequence of LockShared/LockExclusive/LockUpgrade/release-all(Commit or Abort via TransactionManager) requests on a fresh LockManager(STRICT, SS2PL), compared op by op with an abstract lock table (grant <=> compatible; re-requests succeed; denied requests change nothing; locks vanish only at release-all), plus fresh-transaction probes of every row at the end. A fifth of the sequences run on 18-40 rows and start with one transaction share-locking 10-40 rows in a row with one exclusive lock (direct or by upgrade) taken in between. Sequences requesting an upgrade without holding S are skipped (caller precondition). Non-trivial = the sequence contains a request on a row on which another transaction holds a lock."

var assumptions = []string{
	"LockUpgrade is only called while the transaction holds S on the row (table_page.go); a finished transaction object is not reused",
	"lock-table state is observed through grant/deny outcomes, the transactions' own lock sets and end-of-sequence probes (the tables themselves are unexported)",
}

// --- (1) bounded-exhaustive ---------------------------------------------------------------------

func alphabet() []Op {
	var a []Op
	for t := 0; t < 3; t++ {
		for r := 0; r < 2; r++ {
			for k := 0; k < 3; k++ {
				a = append(a, Op{K: k, T: t, R: r})
			}
		}
	}
	for t := 0; t < 3; t++ {
		a = append(a, Op{K: kR, T: t, Abt: t == 1})
	}
	return a
}

func TestExhaustive(t *testing.T) {
	s := vf.Open("C16")
	s.Rule, s.Assumptions = rule, assumptions
	s.Exhaustive = true
	defer func() { s.Flush(!t.Failed()) }()
	depth := s.Pick(6, 7)
	if d := os.Getenv("VERIF_C16_DEPTH"); d != "" {
		depth, _ = strconv.Atoi(d)
	}
	nsh, _ := strconv.Atoi(os.Getenv("VERIF_NSHARDS"))
	if nsh < 1 {
		nsh = 1
	}
	al := alphabet()
	n := len(al)
	s.Notes["exhaustive_alphabet"] = fmt.Sprintf("%d ops = {S,X,U} x 3 txns x 2 rows + release-all x 3; all sequences of length 1..%d", n, depth)
	var executed, skipped, nontriv int64
	seq := make([]Op, depth)
	idx := make([]int, depth)
	var fail *vf.Failure
	lastSkipAt := -1
	// every length L in 1..depth; sequences partitioned over shards by (first two symbols) mod nsh
	for L := 1; L <= depth && fail == nil; L++ {
		for i := range idx {
			idx[i] = 0
		}
		for {
			part := idx[0]
			if L > 1 {
				part = idx[0]*n + idx[1]
			}
			if part%nsh == s.Shard {
				for i := 0; i < L; i++ {
					seq[i] = al[idx[i]]
				}
				f, v := runOps(3, 2, seq[:L], L == depth || L <= 3)
				lastSkipAt = -1
				if v.skipped {
					skipped++
					lastSkipAt = v.skipAt
				} else {
					executed++
					if v.contended > 0 {
						nontriv++
						if nontriv%50021 == 1 {
							c := Case{3, 2, append([]Op{}, seq[:L]...)}
							s.AddSample(c)
						}
						if nontriv%97 == 0 {
							b, _ := json.Marshal(seq[:L])
							s.AddDistinct(vf.Hash(b))
						}
					}
				}
				if f != nil {
					c := Case{3, 2, append([]Op{}, seq[:L]...)}
					s.Judge(t, c, f)
					fail = f
					break
				}
			}
			// next (a sequence whose op p violates the upgrade precondition prunes every sequence sharing that prefix)
			p := L - 1
			if part%nsh == s.Shard && lastSkipAt >= 0 {
				p = lastSkipAt
				for q := p + 1; q < L; q++ {
					idx[q] = 0
				}
			}
			for p >= 0 {
				idx[p]++
				if idx[p] < n {
					break
				}
				idx[p] = 0
				p--
			}
			if p < 0 {
				break
			}
		}
	}
	s.CountN(executed, nontriv, "exhaustive-executed")
	s.Class("exhaustive-skipped-precondition", skipped)
	s.Notes["exhaustive_note"] = "distinct_nontrivial under-counts the exhaustive phase on purpose: only every 97th non-trivial enumerated sequence is hashed; nontrivial_evaluations is the exact count (all enumerated sequences are distinct by construction)"
}

// --- (2) rapid ----------------------------------------------------------------------------------

func genCase(t *rapid.T) *Case {
	c := &Case{NTxn: rapid.IntRange(2, 6).Draw(t, "ntxn"), NRow: rapid.IntRange(1, 5).Draw(t, "nrow")}
	n := rapid.IntRange(1, 60).Draw(t, "len")
	wide := rapid.IntRange(0, 4).Draw(t, "wide") == 0
	if wide {
		c.NRow = rapid.IntRange(18, 40).Draw(t, "widerows") // transactions that hold dozens of locks at a time (a scan's worth)
	}
	m := newModel(c.NRow)
	if wide {
		// one transaction share-locks 10-c.NRow rows in a row, taking one exclusive lock (on a row of its own or directly) somewhere in between
		wt := rapid.IntRange(0, c.NTxn-1).Draw(t, "widetxn")
		ns := rapid.IntRange(10, c.NRow).Draw(t, "wideshared")
		xat := rapid.IntRange(0, ns).Draw(t, "xat")
		xrow := rapid.IntRange(0, c.NRow-1).Draw(t, "xrow")
		for r := 0; r <= ns; r++ {
			if r == xat {
				k := kX
				if m.holdsS(wt, xrow) {
					k = kU
				}
				m.request(k, wt, xrow)
				c.Ops = append(c.Ops, Op{K: k, T: wt, R: xrow})
			}
			if r < ns {
				m.request(kS, wt, r)
				c.Ops = append(c.Ops, Op{K: kS, T: wt, R: r})
			}
		}
	}
	for i := 0; i < n; i++ {
		op := Op{T: rapid.IntRange(0, c.NTxn-1).Draw(t, "t")}
		k := rapid.SampledFrom([]int{kS, kS, kS, kX, kX, kU, kU, kR}).Draw(t, "k")
		op.K = k
		if k != kR {
			op.R = rapid.IntRange(0, c.NRow-1).Draw(t, "r")
			if k == kU && !m.holdsS(op.T, op.R) {
				op.K = kS // construction instead of rejection: make the upgrade legal later
			}
			m.request(op.K, op.T, op.R)
		} else {
			op.Abt = rapid.Bool().Draw(t, "abt")
			m.release(op.T)
		}
		c.Ops = append(c.Ops, op)
	}
	return c
}

func TestSearch(t *testing.T) {
	s := vf.Open("C16")
	s.Rule, s.Assumptions = rule, assumptions
	defer func() { s.Flush(!t.Failed()) }()
	rapid.Check(t, func(rt *rapid.T) {
		c := genCase(rt)
		f, v := runCase(c)
		cls := []string{"rapid"}
		if v.denied > 0 {
			cls = append(cls, "has-denied-request")
		}
		s.Count(c, v.contended > 0 && !v.skipped, cls...)
		s.Judge(rt, c, f)
	})
}

func TestReplay(t *testing.T) {
	s := vf.Open("C16")
	s.Rule, s.Assumptions = rule, assumptions
	defer func() { s.Flush(true) }()
	s.Replay(func(raw json.RawMessage) *vf.Failure {
		var c Case
		if err := json.Unmarshal(raw, &c); err != nil {
			return vf.Failf("bad-case", "%v", err)
		}
		f, _ := runCase(&c)
		return f
	})
}
