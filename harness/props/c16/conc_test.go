package c16

import (
	"fmt"
	"math/rand"
	"sync"
	"sync/atomic"
	"testing"
	"time"

	"github.com/anishathalye/porcupine"

	"github.com/ryogrid/SamehadaDB/lib/storage/access"

	"verifharness/vf"
)

// Concurrent phase: 4-12 goroutines, each driving its own sequence of transactions, issue random
// S / X / upgrade / release-all requests on 2-4 rows of one LockManager. Every call is recorded with
// call/return stamps of a shared logical clock; the history must be linearizable against the abstract
// lock table (porcupine, partitioned by row; a release-all is an operation of every row's partition).
type concCase struct {
	Goroutines int   `json:"goroutines"`
	Rows       int   `json:"rows"`
	Ops        int   `json:"ops"`
	Seed       int64 `json:"seed"`
}

type lockIn struct {
	k   int // kS kX kU kR
	txn int // globally unique transaction number
	row int
}

var lclock int64

func tick() int64 { return atomic.AddInt64(&lclock, 1) }

func runConcLocks(c *concCase) (*vf.Failure, int) {
	e := newEnv(0, c.Rows)
	var mu sync.Mutex
	perRow := make([][]porcupine.Operation, c.Rows)
	var txnCounter int64
	var wg sync.WaitGroup
	for g := 0; g < c.Goroutines; g++ {
		wg.Add(1)
		go func(g int) {
			defer wg.Done()
			rng := rand.New(rand.NewSource(c.Seed*31 + int64(g)))
			txn := e.tm.Begin(nil)
			id := int(atomic.AddInt64(&txnCounter, 1))
			holdsS := map[int]bool{}
			for n := 0; n < c.Ops; n++ {
				k := []int{kS, kS, kX, kU, kR}[rng.Intn(5)]
				row := rng.Intn(c.Rows)
				rid := e.rids[row]
				if k == kU && !txn.IsSharedLocked(&rid) {
					k = kS // upgrade only while holding S (caller precondition)
				}
				call := tick()
				var got bool
				switch k {
				case kS:
					got = e.lm.LockShared(txn, &rid)
					if got {
						holdsS[row] = true
					}
				case kX:
					got = e.lm.LockExclusive(txn, &rid)
				case kU:
					got = e.lm.LockUpgrade(txn, &rid)
				case kR:
					e.tm.Commit(nil, txn)
					got = true
				}
				ret := tick()
				mu.Lock()
				if k == kR {
					for r := 0; r < c.Rows; r++ {
						perRow[r] = append(perRow[r], porcupine.Operation{ClientId: g, Input: lockIn{kR, id, r}, Call: call, Output: true, Return: ret})
					}
				} else {
					perRow[row] = append(perRow[row], porcupine.Operation{ClientId: g, Input: lockIn{k, id, row}, Call: call, Output: got, Return: ret})
				}
				mu.Unlock()
				if k == kR {
					txn = e.tm.Begin(nil)
					id = int(atomic.AddInt64(&txnCounter, 1))
					holdsS = map[int]bool{}
				}
			}
			// the last transaction ends too: recorded like every other release-all
			call := tick()
			e.tm.Commit(nil, txn)
			ret := tick()
			mu.Lock()
			for r := 0; r < c.Rows; r++ {
				perRow[r] = append(perRow[r], porcupine.Operation{ClientId: g, Input: lockIn{kR, id, r}, Call: call, Output: true, Return: ret})
			}
			mu.Unlock()
		}(g)
	}
	wg.Wait()
	type rowState struct {
		s map[int]bool
		x int
	}
	enc := func(st rowState) string {
		keys := make([]int, 0, len(st.s))
		for k := range st.s {
			keys = append(keys, k)
		}
		// small sets: insertion sort
		for i := 1; i < len(keys); i++ {
			for j := i; j > 0 && keys[j-1] > keys[j]; j-- {
				keys[j-1], keys[j] = keys[j], keys[j-1]
			}
		}
		return fmt.Sprint(keys, st.x)
	}
	model := porcupine.Model{
		Init: func() interface{} { return rowState{s: map[int]bool{}, x: -1} },
		Step: func(state, input, output interface{}) (bool, interface{}) {
			st := state.(rowState)
			in := input.(lockIn)
			others := false
			for t := range st.s {
				if t != in.txn {
					others = true
				}
			}
			cp := func() rowState {
				n := rowState{s: map[int]bool{}, x: st.x}
				for t := range st.s {
					n.s[t] = true
				}
				return n
			}
			switch in.k {
			case kR:
				n := cp()
				delete(n.s, in.txn)
				if n.x == in.txn {
					n.x = -1
				}
				return true, n
			case kS:
				want := !(st.x >= 0 && st.x != in.txn)
				if output.(bool) != want {
					return false, st
				}
				if want && st.x != in.txn {
					n := cp()
					n.s[in.txn] = true
					return true, n
				}
				return true, st
			default: // X or upgrade
				want := !((st.x >= 0 && st.x != in.txn) || others)
				if output.(bool) != want {
					return false, st
				}
				if want {
					n := cp()
					n.x = in.txn
					return true, n
				}
				return true, st
			}
		},
		Equal: func(a, b interface{}) bool { return enc(a.(rowState)) == enc(b.(rowState)) },
		DescribeOperation: func(input, output interface{}) string {
			in := input.(lockIn)
			return fmt.Sprintf("%s(txn%d,row%d)->%v", kname[in.k], in.txn, in.row, output)
		},
	}
	total := 0
	for r := 0; r < c.Rows; r++ {
		total += len(perRow[r])
		res := porcupine.CheckOperationsTimeout(model, perRow[r], 20*time.Second)
		if res == porcupine.Illegal {
			return vf.Failf("concurrent-not-linearizable", "the concurrent history of row %d (%d operations by %d goroutines) has no order consistent with the S/X compatibility rules", r, len(perRow[r]), c.Goroutines), total
		}
		if res == porcupine.Unknown {
			return vf.Failf("checker-timeout", "undecided"), total
		}
	}
	return nil, total
}

var _ = access.STRICT

func TestConcurrent(t *testing.T) {
	s := vf.Open("C16")
	s.Rule = "Case (concurrent) = 4-12 goroutines, each running transactions that issue random LockShared / LockExclusive / LockUpgrade (only while holding S) / release-all (Commit) calls on 2-4 rows of one LockManager, 40-120 calls each; every call recorded with logical call/return stamps; per row the history (release-all belongs to every row) must be linearizable against the abstract lock table (porcupine). Non-trivial = a run (all runs have overlapping requests on common rows)."
	s.Assumptions = assumptions
	defer func() { s.Flush(!t.Failed()) }()
	rng := rand.New(rand.NewSource(s.Seed*911 + int64(s.Shard)))
	runs := s.Pick(40, 600)
	for i := 0; i < runs; i++ {
		c := &concCase{Goroutines: 4 + rng.Intn(9), Rows: 2 + rng.Intn(3), Ops: 40 + rng.Intn(81), Seed: rng.Int63()}
		f, n := runConcLocks(c)
		s.Count(c, n > 0, "concurrent")
		s.Class("concurrent-lock-calls", int64(n))
		if f != nil && f.Class == "checker-timeout" {
			s.Class("history-checker-undecided", 1)
			continue
		}
		if f != nil {
			s.Judge(t, c, f)
			return
		}
	}
}
