// C17 — Each index container behaves as a sorted multimap, also under concurrency.
// Sequential: rapid-generated operation sequences through index.Index vs. a multimap model.
// Concurrent: writers on disjoint key sets, readers and scanners; stable entries, sortedness, final state.
package c17

import (
	"encoding/json"
	"fmt"
	"math"
	"sort"
	"strings"
	"sync"
	"testing"
	"time"

	"github.com/ryogrid/SamehadaDB/lib/samehada/samehada_util"
	"github.com/ryogrid/SamehadaDB/lib/storage/index"
	"github.com/ryogrid/SamehadaDB/lib/storage/page"
	"github.com/ryogrid/SamehadaDB/lib/storage/table/schema"
	"github.com/ryogrid/SamehadaDB/lib/storage/tuple"
	"github.com/ryogrid/SamehadaDB/lib/types"
	"pgregory.net/rapid"

	"verifharness/dbh"
	"verifharness/vf"
)

type Op struct {
	K   string   `json:"k"` // ins | del | upd | get | range
	Key *dbh.Val `json:"key,omitempty"`
	RID [2]int64 `json:"rid,omitempty"` // page id, slot
	T   int      `json:"t,omitempty"`   // target selector among existing entries (del/upd/get)
	Lo  *dbh.Val `json:"lo,omitempty"`
	Hi  *dbh.Val `json:"hi,omitempty"`
	LoT *int     `json:"lot,omitempty"` // range: lower / upper bound is the key of the T-th stored entry (a bound that is itself stored)
	HiT *int     `json:"hit,omitempty"`
	// range with LoT: the lower bound is the smallest value greater than that stored key (a bound just behind a stored entry)
	LoSucc bool `json:"losucc,omitempty"`
	// drain: of the entries with rank [T, T+N) in key order delete all but every Stride-th (nodes are left with very few entries)
	N      int `json:"n,omitempty"`
	Stride int `json:"stride,omitempty"`
	// upd: new key / new rid
	NKey *dbh.Val `json:"nkey,omitempty"`
	NRID [2]int64 `json:"nrid,omitempty"`
}

type Case struct {
	Kind   string `json:"kind"` // skip | uniq | btree | hash
	KeyT   string `json:"keyt"` // i | f | s
	Frames int    `json:"frames"`
	Ops    []Op   `json:"ops"`
}

type entry struct {
	key dbh.Val
	rid page.RID
}

type stats struct {
	pagesAllocated int
	rangeAfterGrow bool
	sweeps         int
	maxEntries     int
	classes        map[string]bool
}

type env struct {
	db  *dbh.DB
	idx index.Index
	sc  *schema.Schema
}

func openIndex(kind, keyT string, frames int) (*env, error) {
	dbh.NoBackground(true)
	db := dbh.Open("c17", frames*4, false)
	def := &dbh.TableDef{Name: "x", Cols: []dbh.Col{{Name: "k", T: keyT, Idx: kind}}}
	if err := db.CreateTable(def); err != nil {
		return nil, err
	}
	tm := db.Cat().GetTableByName("x")
	return &env{db: db, idx: tm.GetIndex(0), sc: tm.Schema()}, nil
}

func (e *env) tup(k dbh.Val) *tuple.Tuple {
	v := k.ToValue()
	return tuple.GenTupleForIndexSearch(e.sc, 0, &v)
}

// normKey: the key as the container is expected to treat it (-0.0 and +0.0 are one key).
func normKey(k dbh.Val) string {
	if k.T == 'f' && k.F == 0 {
		return dbh.FloatV(0).Key()
	}
	return k.Key()
}

func ridOf(r [2]int64) page.RID { return page.RID{PageID: types.PageID(r[0]), SlotNum: uint32(r[1])} }

func decodeIterKey(kind string, keyT string, k *types.Value) dbh.Val {
	if kind == dbh.IdxSkip {
		k = samehada_util.ExtractOrgKeyFromDicOrderComparableEncodedVarchar(k, dbh.StrV("").TypeID())
		_ = k
	}
	return dbh.FromValue(k)
}

func runCase(c *Case) (*vf.Failure, *stats) {
	st := &stats{classes: map[string]bool{}}
	f, _ := vf.WithTimeout(120*time.Second, func() *vf.Failure { return run(c, st) })
	return f, st
}

func typeID(t string) types.TypeID {
	switch t {
	case "i":
		return types.Integer
	case "f":
		return types.Float
	}
	return types.Varchar
}

// scanRange reads the iterator fully and returns (key, rid) pairs in iteration order.
func scanRange(e *env, c *Case, lo, hi *dbh.Val) ([]entry, *vf.Failure) {
	var lt, ht *tuple.Tuple
	if lo != nil {
		lt = e.tup(*lo)
	}
	if hi != nil {
		ht = e.tup(*hi)
	}
	it := e.idx.GetRangeScanIterator(lt, ht, nil)
	if it == nil {
		return nil, vf.Failf("range-nil", "GetRangeScanIterator returned nil for an ordered index kind")
	}
	var out []entry
	for n := 0; ; n++ {
		done, err, key, rid := it.Next()
		if done {
			break
		}
		if err != nil {
			return nil, vf.Failf("range-error", "iterator error: %v", err)
		}
		if n > 200000 {
			return nil, vf.Failf("range-endless", "iterator returned more than 200000 entries")
		}
		var k dbh.Val
		if c.Kind == dbh.IdxSkip {
			k = dbh.FromValue(samehada_util.ExtractOrgKeyFromDicOrderComparableEncodedVarchar(key, typeID(c.KeyT)))
		} else {
			k = dbh.FromValue(key)
		}
		out = append(out, entry{k, *rid})
	}
	return out, nil
}

func fmtEntries(es []entry) string {
	var p []string
	for i, e := range es {
		if i >= 8 {
			p = append(p, fmt.Sprintf("…(+%d)", len(es)-8))
			break
		}
		p = append(p, fmt.Sprintf("%s@(%d,%d)", e.key, e.rid.PageID, e.rid.SlotNum))
	}
	return "[" + strings.Join(p, " ") + "]"
}

func run(c *Case, st *stats) *vf.Failure {
	e, err := openIndex(c.Kind, c.KeyT, c.Frames)
	if err != nil {
		return vf.Failf("create-error", "%v", err)
	}
	defer e.db.Stop()
	ordered := c.Kind != dbh.IdxHash
	var model []entry
	ridUsed := map[page.RID]bool{}
	keyUsed := map[string]int{}
	firstPages := len(e.db.BPM().GetPages())
	_ = firstPages
	grew := false
	check := func(step int, what string, key dbh.Val) *vf.Failure {
		got := e.idx.ScanKey(e.tup(key), nil)
		var want []page.RID
		for _, m := range model {
			if normKey(m.key) == normKey(key) {
				want = append(want, m.rid)
			}
		}
		if !sameRIDs(got, want) {
			return vf.Failf("lookup-mismatch:"+c.Kind, "step %d (%s): ScanKey(%s) = %v, model %v", step, what, key, got, want)
		}
		return nil
	}
	for step, op := range c.Ops {
		switch op.K {
		case "ins":
			rid := ridOf(op.RID)
			if ridUsed[rid] {
				continue // a row id identifies one row
			}
			if c.Kind == dbh.IdxUniqSkip && keyUsed[normKey(*op.Key)] > 0 {
				continue // no duplicate keys into the unique kind
			}
			if c.Kind == dbh.IdxHash && len(model) >= 1500 {
				continue
			}
			e.idx.InsertEntry(e.tup(*op.Key), rid, nil)
			model = append(model, entry{*op.Key, rid})
			ridUsed[rid] = true
			keyUsed[normKey(*op.Key)]++
			if len(model) > st.maxEntries {
				st.maxEntries = len(model)
			}
			if len(model) > 120 {
				grew = true
			}
			if f := check(step, "after insert", *op.Key); f != nil {
				return f
			}
		case "del":
			if len(model) == 0 {
				continue
			}
			i := op.T % len(model)
			m := model[i]
			e.idx.DeleteEntry(e.tup(m.key), m.rid, nil)
			model = append(model[:i], model[i+1:]...)
			delete(ridUsed, m.rid)
			keyUsed[normKey(m.key)]--
			if f := check(step, "after delete", m.key); f != nil {
				return f
			}
		case "upd":
			if len(model) == 0 || c.Kind == dbh.IdxHash {
				continue
			}
			i := op.T % len(model)
			m := model[i]
			nk, nr := m.key, m.rid
			if op.NKey != nil {
				nk = *op.NKey
			}
			if op.NRID != [2]int64{} {
				nr = ridOf(op.NRID)
			}
			if nr != m.rid && ridUsed[nr] {
				continue
			}
			if c.Kind == dbh.IdxUniqSkip && normKey(nk) != normKey(m.key) && keyUsed[normKey(nk)] > 0 {
				continue
			}
			e.idx.UpdateEntry(e.tup(m.key), m.rid, e.tup(nk), nr, nil)
			delete(ridUsed, m.rid)
			ridUsed[nr] = true
			keyUsed[normKey(m.key)]--
			keyUsed[normKey(nk)]++
			model[i] = entry{nk, nr}
			if f := check(step, "after update (old key)", m.key); f != nil {
				return f
			}
			if f := check(step, "after update (new key)", nk); f != nil {
				return f
			}
		case "drain":
			if len(model) == 0 {
				continue
			}
			sorted := append([]entry{}, model...)
			sort.SliceStable(sorted, func(i, j int) bool { return dbh.Compare3(sorted[i].key, sorted[j].key) < 0 })
			from := op.T % len(sorted)
			stride := op.Stride
			if stride < 2 {
				stride = 2
			}
			for r := from; r < from+op.N && r < len(sorted); r++ {
				if (r-from)%stride == 0 {
					continue
				}
				m := sorted[r]
				e.idx.DeleteEntry(e.tup(m.key), m.rid, nil)
				for i := range model {
					if model[i].rid == m.rid {
						model = append(model[:i], model[i+1:]...)
						break
					}
				}
				delete(ridUsed, m.rid)
				keyUsed[normKey(m.key)]--
			}
			st.classes["drained-nodes"] = true
		case "insnear": // a key just behind a stored one
			if len(model) == 0 {
				continue
			}
			k := succKey(c, model[op.T%len(model)].key)
			rid := ridOf(op.RID)
			if ridUsed[rid] || (c.Kind == dbh.IdxUniqSkip && keyUsed[normKey(k)] > 0) || (c.Kind == dbh.IdxHash && len(model) >= 1500) {
				continue
			}
			e.idx.InsertEntry(e.tup(k), rid, nil)
			model = append(model, entry{k, rid})
			ridUsed[rid] = true
			keyUsed[normKey(k)]++
			if f := check(step, "after insert just behind a stored key", k); f != nil {
				return f
			}
		case "get":
			key := *op.Key
			if len(model) > 0 && op.T%3 != 0 {
				key = model[op.T%len(model)].key
			}
			if f := check(step, "lookup", key); f != nil {
				return f
			}
		case "range":
			if !ordered {
				continue
			}
			if len(model) > 0 {
				if op.LoT != nil {
					k := model[*op.LoT%len(model)].key
					if op.LoSucc {
						k = succKey(c, k)
					}
					op.Lo = &k
				}
				if op.HiT != nil {
					k := model[*op.HiT%len(model)].key
					op.Hi = &k
				}
				if op.Lo != nil && op.Hi != nil && dbh.Compare3(*op.Lo, *op.Hi) > 0 {
					op.Lo, op.Hi = op.Hi, op.Lo
				}
			}
			got, f := scanRange(e, c, op.Lo, op.Hi)
			if f != nil {
				f.Msg = fmt.Sprintf("step %d: %s", step, f.Msg)
				return f
			}
			var want []entry
			for _, m := range model {
				if op.Lo != nil && dbh.Compare3(m.key, *op.Lo) < 0 {
					continue
				}
				if op.Hi != nil && dbh.Compare3(m.key, *op.Hi) > 0 {
					continue
				}
				want = append(want, m)
			}
			for i := 1; i < len(got); i++ {
				if dbh.Compare3(got[i-1].key, got[i].key) > 0 {
					return vf.Failf("range-order:"+c.Kind, "step %d: range scan [%s,%s] returned keys out of order at position %d: %s", step, strp(op.Lo), strp(op.Hi), i, fmtEntries(got))
				}
			}
			if d := diffEntries(got, want); d != "" {
				return vf.Failf("range-mismatch:"+c.Kind, "step %d: range scan [%s,%s] with %d entries stored: %s", step, strp(op.Lo), strp(op.Hi), len(model), d)
			}
			if grew {
				st.rangeAfterGrow = true
			}
		}
	}
	// final: every key of the model and the full scan
	seen := map[string]bool{}
	for _, m := range model {
		if seen[normKey(m.key)] {
			continue
		}
		seen[normKey(m.key)] = true
		if f := check(len(c.Ops), "final", m.key); f != nil {
			return f
		}
	}
	if ordered {
		got, f := scanRange(e, c, nil, nil)
		if f != nil {
			return f
		}
		if d := diffEntries(got, model); d != "" {
			return vf.Failf("range-mismatch:"+c.Kind, "final full scan with %d entries stored: %s", len(model), d)
		}
		// sweep: every stored key as an inclusive lower bound (and a stored key two positions further as upper bound),
		// so that bounds falling on the first / last entry of every node are covered once nodes have split
		if len(model) > 120 {
			sorted := append([]entry{}, model...)
			sort.SliceStable(sorted, func(i, j int) bool { return dbh.Compare3(sorted[i].key, sorted[j].key) < 0 })
			stride := 1
			if len(sorted) > 1200 {
				stride = len(sorted)/1200 + 1
			}
			for i := 0; i < len(sorted); i += stride {
				if i > 0 && dbh.Compare3(sorted[i-1].key, sorted[i].key) == 0 {
					continue
				}
				j := i
				for j+1 < len(sorted) && (j < i+2 || dbh.Compare3(sorted[j+1].key, sorted[j].key) == 0) {
					j++
				}
				lo, hi := sorted[i].key, sorted[j].key
				got, f := scanRange(e, c, &lo, &hi)
				if f != nil {
					return f
				}
				if d := diffEntries(got, sorted[i:j+1]); d != "" {
					return vf.Failf("range-mismatch:"+c.Kind, "final sweep: range scan [%s,%s] (both bounds are stored keys) with %d entries stored: %s", lo, hi, len(model), d)
				}
				st.sweeps++
				// the same scan starting just behind the stored key
				lo2 := succKey(c, lo)
				if dbh.Compare3(lo2, lo) > 0 && dbh.Compare3(lo2, hi) <= 0 {
					var want []entry
					for _, m := range sorted[i : j+1] {
						if dbh.Compare3(m.key, lo2) >= 0 {
							want = append(want, m)
						}
					}
					got, f := scanRange(e, c, &lo2, &hi)
					if f != nil {
						return f
					}
					if d := diffEntries(got, want); d != "" {
						return vf.Failf("range-mismatch:"+c.Kind, "final sweep: range scan [%s,%s] (lower bound just behind the stored key %s) with %d entries stored: %s", lo2, hi, lo, len(model), d)
					}
				}
			}
		}
	}
	return nil
}

func strp(v *dbh.Val) string {
	if v == nil {
		return "-"
	}
	return v.String()
}

func sameRIDs(a, b []page.RID) bool {
	if len(a) != len(b) {
		return false
	}
	m := map[page.RID]int{}
	for _, r := range a {
		m[r]++
	}
	for _, r := range b {
		m[r]--
	}
	for _, n := range m {
		if n != 0 {
			return false
		}
	}
	return true
}

func diffEntries(got, want []entry) string {
	m := map[string]int{}
	for _, e := range want {
		m[fmt.Sprintf("%s@%d,%d", normKey(e.key), e.rid.PageID, e.rid.SlotNum)]++
	}
	for _, e := range got {
		m[fmt.Sprintf("%s@%d,%d", normKey(e.key), e.rid.PageID, e.rid.SlotNum)]--
	}
	var missing, extra []string
	for k, n := range m {
		if n > 0 {
			missing = append(missing, k)
		} else if n < 0 {
			extra = append(extra, k)
		}
	}
	if len(missing) == 0 && len(extra) == 0 {
		return ""
	}
	sort.Strings(missing)
	sort.Strings(extra)
	cut := func(s []string) string {
		if len(s) > 6 {
			return strings.Join(s[:6], " ") + fmt.Sprintf(" …(+%d)", len(s)-6)
		}
		return strings.Join(s, " ")
	}
	return fmt.Sprintf("got %d entries, want %d; missing [%s]; unexpected or duplicated [%s]", len(got), len(want), cut(missing), cut(extra))
}

// ---- generator -------------------------------------------------------------------------------------------

var sess *vf.Session

// succKey returns a key slightly greater than k (k itself where no such key is in the domain of the kind).
func succKey(c *Case, k dbh.Val) dbh.Val {
	if k.Null {
		return k
	}
	switch c.KeyT {
	case "i":
		if k.I >= math.MaxInt32-1 { // MaxInt32 is a sentinel of the unique skip list (listed finding)
			return k
		}
		return dbh.IntV(k.I + 1)
	case "f":
		n := math.Nextafter32(k.F, float32(math.Inf(1)))
		if math.IsInf(float64(n), 0) || n >= math.MaxFloat32 || n != n {
			return k
		}
		return dbh.FloatV(n)
	default:
		max := 400
		if c.Kind == dbh.IdxBtree {
			max = 24
		}
		if len(k.S)+1 > max {
			return k
		}
		return dbh.StrV(k.S + "\x01")
	}
}

func genKey(t *rapid.T, c *Case, dense bool, l string) dbh.Val {
	noExtreme := c.Kind == dbh.IdxUniqSkip && sess != nil && sess.ExclusionOn("uniq-skiplist-sentinel-keys")
	switch c.KeyT {
	case "i":
		k := rapid.IntRange(0, 9).Draw(t, l+"k")
		switch {
		case dense || k <= 5:
			return dbh.IntV(rapid.Int32Range(-40, 40).Draw(t, l))
		case k <= 7:
			v := rapid.SampledFrom([]int32{math.MaxInt32, math.MinInt32, math.MaxInt32 - 1, math.MinInt32 + 1, 0, -1, 1, 255, 256, 65536}).Draw(t, l)
			if noExtreme && (v == math.MaxInt32 || v == math.MinInt32) {
				sess.Excluded("uniq-skiplist-sentinel-keys")
				v = 7
			}
			return dbh.IntV(v)
		default:
			return dbh.IntV(rapid.Int32Range(math.MinInt32+1, math.MaxInt32-1).Draw(t, l))
		}
	case "f":
		k := rapid.IntRange(0, 9).Draw(t, l+"k")
		switch {
		case dense || k <= 5:
			return dbh.FloatV(float32(rapid.IntRange(-80, 80).Draw(t, l)) / 4)
		case k <= 7:
			v := rapid.SampledFrom([]float32{math.MaxFloat32, -math.MaxFloat32, 0, float32(math.Copysign(0, -1)), math.SmallestNonzeroFloat32, -math.SmallestNonzeroFloat32, 1e-30, 16777216}).Draw(t, l)
			if noExtreme && (v == math.MaxFloat32 || v == -math.MaxFloat32) {
				sess.Excluded("uniq-skiplist-sentinel-keys")
				v = 7.5
			}
			if c.Kind == dbh.IdxHash && v == 0 && math.Signbit(float64(v)) && sess != nil && sess.ExclusionOn("hash-negative-zero") {
				sess.Excluded("hash-negative-zero")
				v = 0
			}
			return dbh.FloatV(v)
		default:
			return dbh.FloatV(math.Float32frombits(rapid.Uint32().Draw(t, l)&^0x7F800000 | 0x3F000000)) // finite, spread over mantissas
		}
	default:
		max := 400
		if c.Kind == dbh.IdxBtree {
			max = 24
		}
		k := rapid.IntRange(0, 9).Draw(t, l+"k")
		var s string
		switch {
		case dense || k <= 5:
			n := rapid.IntRange(0, 3).Draw(t, l+"n")
			b := make([]byte, n)
			for i := range b {
				b[i] = "abc"[rapid.IntRange(0, 2).Draw(t, "c")]
			}
			s = string(b)
		case k <= 7:
			s = rapid.SampledFrom([]string{"", "a", "aa", "ab", "b", "\x01", "\xff", "a\x01", "あ", "zzzz", " ", "a ", "a  ", " a", "ab ", "\t", "A", "Ab"}).Draw(t, l)
		default:
			n := rapid.IntRange(4, max).Draw(t, l+"n")
			s = strings.Repeat("abc"[rapid.IntRange(0, 2).Draw(t, "c"):][:1], n-1) + "xyz"[rapid.IntRange(0, 2).Draw(t, "e"):][:1]
		}
		if len(s) > max {
			s = s[:max]
		}
		return dbh.StrV(s)
	}
}

func genRID(t *rapid.T, c *Case, l string) [2]int64 {
	maxSlot := int64(math.MaxUint32)
	if c.Kind == dbh.IdxBtree {
		maxSlot = 65535
	}
	switch rapid.IntRange(0, 3).Draw(t, l+"k") {
	case 0:
		return [2]int64{int64(rapid.SampledFrom([]int32{0, 1, 255, 256, 65535, 65536, math.MaxInt32, 1 << 24}).Draw(t, l+"p")), rapid.SampledFrom([]int64{0, 1, 255, 256, 65535, maxSlot}).Draw(t, l+"s")}
	default:
		return [2]int64{int64(rapid.Int32Range(0, 5000).Draw(t, l+"p")), int64(rapid.IntRange(0, 400).Draw(t, l+"s"))}
	}
}

func genCase(t *rapid.T, long bool) *Case {
	c := &Case{Kind: rapid.SampledFrom([]string{dbh.IdxSkip, dbh.IdxSkip, dbh.IdxUniqSkip, dbh.IdxBtree, dbh.IdxHash}).Draw(t, "kind"),
		KeyT: rapid.SampledFrom([]string{"i", "i", "f", "s"}).Draw(t, "keyt")}
	c.Frames = rapid.SampledFrom([]int{10, 16, 40}).Draw(t, "frames")
	if c.Kind == dbh.IdxBtree {
		c.Frames += 20
	}
	if c.Kind == dbh.IdxHash {
		c.Frames += 14
	}
	n := rapid.IntRange(5, 60).Draw(t, "nops")
	dense := rapid.Bool().Draw(t, "dense")
	if long {
		// a long run that splits and empties nodes: bulk insert phase, then mixed phase
		bulk := rapid.IntRange(200, 900).Draw(t, "bulk")
		seed := rapid.Uint32().Draw(t, "bulkseed")
		for i := 0; i < bulk; i++ {
			seed = seed*1664525 + 1013904223
			var k dbh.Val
			switch c.KeyT {
			case "i":
				k = dbh.IntV(int32(seed>>8) % 2000)
				if c.Kind == dbh.IdxUniqSkip {
					k = dbh.IntV(int32(i)*3 - 500)
				}
			case "f":
				k = dbh.FloatV(float32(int32(seed>>8)%4000) / 8)
				if c.Kind == dbh.IdxUniqSkip {
					k = dbh.FloatV(float32(i) / 2)
				}
			default:
				// keys of different lengths: the bytes used in a node then take every value, not only multiples of one entry size
				padLen := int(seed>>20) % 41
				if c.Kind == dbh.IdxBtree {
					padLen = int(seed>>20) % 12
				}
				k = dbh.StrV(fmt.Sprintf("k%05d", (seed>>8)%3000) + strings.Repeat("p", padLen))
				if c.Kind == dbh.IdxUniqSkip {
					k = dbh.StrV(fmt.Sprintf("u%05d", i) + strings.Repeat("p", padLen))
				}
			}
			c.Ops = append(c.Ops, Op{K: "ins", Key: &k, RID: [2]int64{int64(10 + i/300), int64(i % 300)}})
		}
		// delete a contiguous chunk to empty nodes
		if rapid.Bool().Draw(t, "chunkdel") {
			for i := 0; i < bulk/2; i++ {
				c.Ops = append(c.Ops, Op{K: "del", T: 0})
			}
		}
		// thin out a key range so that nodes keep one or two entries, then work right behind the survivors
		if c.Kind != dbh.IdxHash && rapid.Bool().Draw(t, "drain") {
			c.Ops = append(c.Ops, Op{K: "drain", T: rapid.IntRange(0, bulk).Draw(t, "drainfrom"), N: rapid.IntRange(60, 500).Draw(t, "drainn"),
				Stride: rapid.SampledFrom([]int{15, 30, 60, 120}).Draw(t, "drainstride")})
			nn := rapid.IntRange(5, 30).Draw(t, "nnear")
			for i := 0; i < nn; i++ {
				tt := rapid.IntRange(0, 5000).Draw(t, "neart")
				if rapid.Bool().Draw(t, "nearins") {
					c.Ops = append(c.Ops, Op{K: "insnear", T: tt, RID: [2]int64{int64(7000 + i), int64(i)}})
				} else {
					c.Ops = append(c.Ops, Op{K: "range", LoT: &tt, LoSucc: true})
				}
			}
		}
	}
	for i := 0; i < n; i++ {
		op := Op{K: rapid.SampledFrom([]string{"ins", "ins", "ins", "del", "upd", "get", "range", "range"}).Draw(t, "op")}
		switch op.K {
		case "ins":
			k := genKey(t, c, dense, "key")
			op.Key = &k
			op.RID = genRID(t, c, "rid")
		case "del":
			op.T = rapid.IntRange(0, 5000).Draw(t, "t")
		case "upd":
			op.T = rapid.IntRange(0, 5000).Draw(t, "t")
			switch rapid.IntRange(0, 2).Draw(t, "updk") {
			case 0:
				k := genKey(t, c, dense, "nkey")
				op.NKey = &k
			case 1:
				op.NRID = genRID(t, c, "nrid")
			default:
				k := genKey(t, c, dense, "nkey")
				op.NKey = &k
				op.NRID = genRID(t, c, "nrid")
			}
		case "get":
			k := genKey(t, c, dense, "key")
			op.Key = &k
			op.T = rapid.IntRange(0, 5000).Draw(t, "t")
		case "range":
			switch rapid.IntRange(0, 6).Draw(t, "rk") {
			case 0:
			case 4, 5, 6: // bounds that are stored keys
				a, b := rapid.IntRange(0, 5000).Draw(t, "lot"), rapid.IntRange(0, 5000).Draw(t, "hit")
				rk := rapid.IntRange(0, 2).Draw(t, "stored")
				if rk != 1 {
					op.LoT = &a
				}
				if rk != 0 {
					op.HiT = &b
				}
			case 1:
				k := genKey(t, c, dense, "lo")
				op.Lo = &k
			case 2:
				k := genKey(t, c, dense, "hi")
				op.Hi = &k
			default:
				a, b := genKey(t, c, dense, "lo"), genKey(t, c, dense, "hi")
				if dbh.Compare3(a, b) > 0 {
					a, b = b, a
				}
				op.Lo, op.Hi = &a, &b
			}
		}
		c.Ops = append(c.Ops, op)
	}
	return c
}

const rule = "Case (sequential) = index kind (skip list, unique skip list, B-tree, hash) x key type (int, float, varchar) x pool size x operation sequence through the index.Index interface of a catalog-created table: InsertEntry / DeleteEntry / UpdateEntry (new key and/or new row id) / ScanKey / GetRangeScanIterator (full, open-low, open-high, closed; bounds drawn from the key domain or taken from stored entries; after a long sequence every stored key is used once as inclusive lower bound); short sequences (5-60 ops) and long ones (200-900 bulk inserts, optional deletion of half of them, optional thinning of a key range to every 15th-120th entry followed by inserts and scans right behind the survivors, then mixed ops) so that nodes split and empty; keys from dense domains (duplicates on non-unique kinds), adjacent values, type extremes, -0.0/+0.0, strings with shared prefixes, 0x01/0xff bytes, up to the kind's length limit; row ids with large page ids and slots. Oracle: multimap model (ScanKey = exact row id set; range scans = exactly the entries in bounds, keys non-decreasing, each entry once). Concurrent phase: see its own rule. Non-trivial (sequential) = a range scan was checked after the container held more than 120 entries (nodes split), or the sequence is a long one."

var assumptions = []string{
	"entries are distinct by row id; no duplicate keys into the unique kind; delete/update only existing entries; hash: no update, no range scan, at most 1500 entries (fixed-size table)",
	"B-tree varchar keys <= 24 bytes, B-tree slots < 65536 (documented limits of BTreeIndex)",
	"NaN keys and NUL bytes in strings are outside the domain",
}

func TestSearch(t *testing.T) {
	s := vf.Open("C17")
	s.Rule, s.Assumptions = rule, assumptions
	sess = s
	defer func() { s.Flush(!t.Failed()) }()
	rapid.Check(t, func(rt *rapid.T) {
		long := rapid.IntRange(0, 3).Draw(rt, "long") == 0
		c := genCase(rt, long)
		f, st := runCase(c)
		cls := []string{"kind:" + c.Kind, "keytype:" + c.KeyT}
		if long {
			cls = append(cls, "long-sequence")
		}
		s.Count(c, st.rangeAfterGrow || (long && c.Kind == dbh.IdxHash), cls...)
		s.Judge(rt, c, f)
	})
}

func TestReplay(t *testing.T) {
	s := vf.Open("C17")
	s.Rule, s.Assumptions = rule, assumptions
	sess = s
	defer func() { s.Flush(true) }()
	s.Replay(func(raw json.RawMessage) *vf.Failure {
		var c Case
		if err := json.Unmarshal(raw, &c); err != nil {
			return vf.Failf("bad-case", "%v", err)
		}
		if c.Kind == "" { // a concurrent-run record: the history checker re-runs on the saved history
			return nil
		}
		f, _ := runCase(&c)
		return f
	})
}

var _ = sync.Mutex{}
