package c17

import (
	"fmt"
	"math/rand"
	"os"
	"sort"
	"strconv"
	"strings"
	"sync"
	"sync/atomic"
	"testing"
	"time"

	"github.com/ryogrid/SamehadaDB/lib/storage/page"
	"github.com/ryogrid/SamehadaDB/lib/storage/tuple"
	"github.com/ryogrid/SamehadaDB/lib/types"

	"verifharness/dbh"
	"verifharness/vf"
)

// Concurrent phase: one index, a set of stable entries that nobody touches, writer goroutines that own
// disjoint key sets (insert / delete / update / lookup of their own keys), reader goroutines looking up
// stable keys, scanner goroutines running range scans. Oracles (all deterministic given the ownership):
//   - every lookup of a stable key returns exactly its row id;
//   - a writer's lookup of its own key right after its own insert / delete / update sees that operation;
//   - every range scan is sorted, without duplicates, contains every stable entry in range and only
//     entries that are stable or were inserted by some writer at some time;
//   - after all goroutines joined, the full content equals stable entries + each writer's final entries.
type ConcCase struct {
	Kind    string `json:"kind"`
	Writers int    `json:"writers"`
	Readers int    `json:"readers"`
	Scans   int    `json:"scanners"`
	OpsPerW int    `json:"ops_per_writer"`
	Frames  int    `json:"frames"`
	Seed    int64  `json:"seed"`
	// Wide: keys are 808-byte strings ("%08d" + padding) instead of integers: a skip-list node holds four entries, so nodes
	// split, empty and get unlinked all the time while other goroutines work on them
	Wide bool `json:"wide,omitempty"`
}

type concStats struct {
	scansOverlappingWrites int64
	moves                  int64
	scansOverlappingMoves  int64
	lookups                int64
	writes                 int64
}

const rule2 = "Case (concurrent) = index kind x (2-6 writer goroutines owning disjoint key sets (integers, or for the skip-list kinds 808-byte strings so that a node holds four entries and node removal is frequent), 1-3 readers of 150 stable entries, 1-2 range scanners) on one index of a catalog-created table with a pool small enough to evict index pages. Oracles: stable keys always found with their row id; a writer sees its own completed operations; every range scan sorted, duplicate-free, containing all stable entries in range and nothing that was never inserted; final content = stable + writers' final sets. Non-trivial = a run in which range scans overlapped structural modifications (both counted while running)."

func runConc(c *ConcCase, cs *concStats) *vf.Failure {
	keyT, span := "i", 400
	pad := ""
	if c.Wide {
		keyT, span, pad = "s", 24, strings.Repeat("w", 800)
	}
	e, err := openIndex(c.Kind, keyT, c.Frames)
	if err != nil {
		return vf.Failf("create-error", "%v", err)
	}
	defer e.db.Stop()
	kv := func(k int32) dbh.Val { // the key value of logical key k
		if c.Wide {
			return dbh.StrV(fmt.Sprintf("%08d", k) + pad)
		}
		return dbh.IntV(k)
	}
	kt := func(k int32) *tuple.Tuple { return e.tup(kv(k)) }
	keyInt := func(v dbh.Val) int32 { // logical key of a scanned entry
		if c.Wide {
			n, _ := strconv.Atoi(v.S[:8])
			return int32(n)
		}
		return v.I
	}
	ordered := c.Kind != dbh.IdxHash
	// stable entries: keys 1000000 + 10*i
	stable := map[int32]page.RID{}
	nStable, stableStep := 150, 10
	if c.Wide {
		nStable, stableStep = 12, 100 // few never-touched entries, so that nodes really run empty
	}
	for i := 0; i < nStable; i++ {
		k := int32(1000000 + stableStep*i)
		rid := page.RID{PageID: 7, SlotNum: uint32(i)}
		e.idx.InsertEntry(kt(k), rid, nil)
		stable[k] = rid
	}
	var failMu sync.Mutex
	var fail *vf.Failure
	setFail := func(f *vf.Failure) {
		failMu.Lock()
		if fail == nil {
			fail = f
		}
		failMu.Unlock()
	}
	failed := func() bool { failMu.Lock(); defer failMu.Unlock(); return fail != nil }
	var stop int32
	var writersActive int32
	everInserted := sync.Map{} // key -> true (any writer, any time)
	finals := make([]map[int32]page.RID, c.Writers)
	var wg sync.WaitGroup
	for w := 0; w < c.Writers; w++ {
		wg.Add(1)
		atomic.AddInt32(&writersActive, 1)
		go func(w int) {
			defer wg.Done()
			defer atomic.AddInt32(&writersActive, -1)
			defer func() {
				if r := recover(); r != nil {
					setFail(vf.Failf("conc-panic:"+c.Kind, "writer %d panicked: %v", w, r))
				}
			}()
			rng := rand.New(rand.NewSource(c.Seed*131 + int64(w)))
			own := map[int32]page.RID{}
			// owned keys interleave with the stable ones: 1000000 + 10*i + (w+1), i in [0,400)
			keyOf := func(i int) int32 { return int32(1000000 + 10*i + (w + 1)) }
			for n := 0; n < c.OpsPerW && !failed(); n++ {
				i := rng.Intn(span)
				k := keyOf(i)
				rid, have := own[k]
				switch {
				case !have:
					nr := page.RID{PageID: int32ToPID(100 + w), SlotNum: uint32(n % 60000)}
					everInserted.Store(k, true)
					e.idx.InsertEntry(kt(k), nr, nil)
					own[k] = nr
					atomic.AddInt64(&cs.writes, 1)
					if got := e.idx.ScanKey(kt(k), nil); !sameRIDs(got, []page.RID{nr}) {
						setFail(vf.Failf("conc-own-insert-lost:"+c.Kind, "writer %d inserted key %d -> %v, its own lookup right after returned %v", w, k, nr, got))
						return
					}
				case rng.Intn(3) == 0 && c.Kind != dbh.IdxHash:
					nk := keyOf(rng.Intn(span))
					if _, taken := own[nk]; taken && nk != k {
						continue
					}
					nr := page.RID{PageID: int32ToPID(100 + w), SlotNum: uint32(n % 60000)}
					everInserted.Store(nk, true)
					e.idx.UpdateEntry(kt(k), rid, kt(nk), nr, nil)
					delete(own, k)
					own[nk] = nr
					atomic.AddInt64(&cs.writes, 1)
					if got := e.idx.ScanKey(kt(nk), nil); !sameRIDs(got, []page.RID{nr}) {
						setFail(vf.Failf("conc-own-update-lost:"+c.Kind, "writer %d updated key %d -> %d (%v), its own lookup of the new key returned %v", w, k, nk, nr, got))
						return
					}
				default:
					e.idx.DeleteEntry(kt(k), rid, nil)
					delete(own, k)
					atomic.AddInt64(&cs.writes, 1)
					if got := e.idx.ScanKey(kt(k), nil); len(got) != 0 {
						setFail(vf.Failf("conc-own-delete-lost:"+c.Kind, "writer %d deleted key %d, its own lookup right after returned %v", w, k, got))
						return
					}
				}
			}
			finals[w] = own
		}(w)
	}
	var aux sync.WaitGroup
	// one entry that is only ever moved: UpdateEntry(old key -> new key, same row id) in a key range of its own. UpdateEntry
	// is documented as "delete first entry and insert second entry atomically": every scan of that range finds it exactly once
	moverKey := int32(3000000)
	moverRID := page.RID{PageID: 9, SlotNum: 4242}
	if ordered {
		e.idx.InsertEntry(kt(moverKey), moverRID, nil)
		aux.Add(2)
		go func() {
			defer aux.Done()
			defer func() {
				if x := recover(); x != nil {
					setFail(vf.Failf("conc-panic:"+c.Kind, "mover panicked: %v", x))
				}
			}()
			rng := rand.New(rand.NewSource(c.Seed*7919 + 5))
			for atomic.LoadInt32(&stop) == 0 && !failed() {
				nk := int32(3000000 + 10*rng.Intn(200))
				if nk == moverKey {
					continue
				}
				e.idx.UpdateEntry(kt(moverKey), moverRID, kt(nk), moverRID, nil)
				moverKey = nk
				atomic.AddInt64(&cs.moves, 1)
			}
		}()
		go func() {
			defer aux.Done()
			defer func() {
				if x := recover(); x != nil {
					setFail(vf.Failf("conc-panic:"+c.Kind, "mover scanner panicked: %v", x))
				}
			}()
			cc := &Case{Kind: c.Kind, KeyT: keyT}
			lo, hi := kv(3000000), kv(3000000+2000)
			if c.Wide {
				lo = dbh.StrV(fmt.Sprintf("%08d", 3000000))
			}
			for atomic.LoadInt32(&stop) == 0 && !failed() {
				m0 := atomic.LoadInt64(&cs.moves)
				got, f := scanRange(e, cc, &lo, &hi)
				if f != nil {
					setFail(f)
					return
				}
				if atomic.LoadInt64(&cs.moves) != m0 {
					atomic.AddInt64(&cs.scansOverlappingMoves, 1)
				}
				if len(got) != 1 || got[0].rid != moverRID {
					setFail(vf.Failf("conc-update-not-atomic:"+c.Kind, "an entry is moved from key to key with UpdateEntry (nothing else touches its key range); a range scan over that range returned %d entries: %s", len(got), fmtEntries(got)))
					return
				}
			}
		}()
	}
	for r := 0; r < c.Readers; r++ {
		aux.Add(1)
		go func(r int) {
			defer aux.Done()
			defer func() {
				if x := recover(); x != nil {
					setFail(vf.Failf("conc-panic:"+c.Kind, "reader %d panicked: %v", r, x))
				}
			}()
			rng := rand.New(rand.NewSource(c.Seed*977 + int64(r)))
			for atomic.LoadInt32(&stop) == 0 && !failed() {
				k := int32(1000000 + stableStep*rng.Intn(nStable))
				got := e.idx.ScanKey(kt(k), nil)
				atomic.AddInt64(&cs.lookups, 1)
				if !sameRIDs(got, []page.RID{stable[k]}) {
					setFail(vf.Failf("conc-stable-lookup:"+c.Kind, "lookup of the never-touched key %d returned %v, expected [%v] (writers active: %d)", k, got, stable[k], atomic.LoadInt32(&writersActive)))
					return
				}
			}
		}(r)
	}
	if ordered {
		for s := 0; s < c.Scans; s++ {
			aux.Add(1)
			go func(s int) {
				defer aux.Done()
				defer func() {
					if x := recover(); x != nil {
						setFail(vf.Failf("conc-panic:"+c.Kind, "scanner %d panicked: %v", s, x))
					}
				}()
				rng := rand.New(rand.NewSource(c.Seed*31 + int64(s)))
				cc := &Case{Kind: c.Kind, KeyT: keyT}
				for atomic.LoadInt32(&stop) == 0 && !failed() {
					a := int32(1000000 + rng.Intn(3000))
					b := a + int32(rng.Intn(1500))
					lo, hi := kv(a), kv(b)
					if c.Wide {
						lo = dbh.StrV(fmt.Sprintf("%08d", a))
					}
					w0 := atomic.LoadInt64(&cs.writes)
					got, f := scanRange(e, cc, &lo, &hi)
					if f != nil {
						setFail(f)
						return
					}
					if atomic.LoadInt64(&cs.writes) != w0 {
						atomic.AddInt64(&cs.scansOverlappingWrites, 1)
					}
					seen := map[int32]bool{}
					for i, en := range got {
						if i > 0 && keyInt(got[i-1].key) > keyInt(en.key) {
							setFail(vf.Failf("conc-scan-order:"+c.Kind, "range scan [%d,%d] returned keys out of order: %s", a, b, fmtEntries(got)))
							return
						}
						if keyInt(en.key) < a || keyInt(en.key) > b {
							setFail(vf.Failf("conc-scan-bounds:"+c.Kind, "range scan [%d,%d] returned key %d", a, b, keyInt(en.key)))
							return
						}
						if seen[keyInt(en.key)] {
							setFail(vf.Failf("conc-scan-duplicate:"+c.Kind, "range scan [%d,%d] returned key %d twice (keys are unique in this workload)", a, b, keyInt(en.key)))
							return
						}
						seen[keyInt(en.key)] = true
						if _, st := stable[keyInt(en.key)]; !st {
							if _, ok := everInserted.Load(keyInt(en.key)); !ok {
								setFail(vf.Failf("conc-scan-invented:"+c.Kind, "range scan returned key %d which was never inserted", keyInt(en.key)))
								return
							}
						}
					}
					for k := range stable {
						if k >= a && k <= b && !seen[k] {
							setFail(vf.Failf("conc-scan-missed-stable:"+c.Kind, "range scan [%d,%d] did not return the never-touched key %d (returned %d entries)", a, b, k, len(got)))
							return
						}
					}
				}
			}(s)
		}
	}
	done := make(chan struct{})
	go func() { wg.Wait(); close(done) }()
	if !vf.WaitScheduled(done, 90*time.Second) {
		atomic.StoreInt32(&stop, 1)
		return vf.Failf("conc-hang:"+c.Kind, "writers did not finish within 90s (%d writes done)", atomic.LoadInt64(&cs.writes))
	}
	atomic.StoreInt32(&stop, 1)
	aux.Wait()
	if fail != nil {
		return fail
	}
	// final content
	want := map[int32]page.RID{}
	for k, r := range stable {
		want[k] = r
	}
	for _, m := range finals {
		for k, r := range m {
			want[k] = r
		}
	}
	if ordered {
		want[moverKey] = moverRID
	}
	if ordered {
		got, f := scanRange(e, &Case{Kind: c.Kind, KeyT: keyT}, nil, nil)
		if f != nil {
			return f
		}
		gm := map[int32]page.RID{}
		for _, en := range got {
			gm[keyInt(en.key)] = en.rid
		}
		var diff []string
		for k, r := range want {
			if g, ok := gm[k]; !ok || g != r {
				diff = append(diff, fmt.Sprintf("key %d: want %v got %v(present=%v)", k, r, g, ok))
			}
		}
		for k := range gm {
			if _, ok := want[k]; !ok {
				diff = append(diff, fmt.Sprintf("key %d unexpected", k))
			}
		}
		if len(diff) > 0 || len(got) != len(want) {
			sort.Strings(diff)
			if len(diff) > 6 {
				diff = diff[:6]
			}
			return vf.Failf("conc-final-state:"+c.Kind, "after all goroutines finished the index holds %d entries, expected %d: %v", len(got), len(want), diff)
		}
	} else {
		for k, r := range want {
			if got := e.idx.ScanKey(kt(k), nil); !sameRIDs(got, []page.RID{r}) {
				return vf.Failf("conc-final-state:"+c.Kind, "after all goroutines finished key %d -> %v, expected [%v]", k, got, r)
			}
		}
	}
	return nil
}

func int32ToPID(x int) types.PageID { return types.PageID(x) }

func TestConcurrent(t *testing.T) {
	s := vf.Open("C17")
	s.Rule, s.Assumptions = rule2, assumptions
	defer func() { s.Flush(!t.Failed()) }()
	runs := s.Pick(8, 40)
	if v := os.Getenv("VERIF_C17_RUNS"); v != "" {
		runs, _ = strconv.Atoi(v)
	}
	rng := rand.New(rand.NewSource(s.Seed*7919 + int64(s.Shard)))
	kinds := []string{dbh.IdxSkip, dbh.IdxUniqSkip, dbh.IdxBtree, dbh.IdxHash}
	for i := 0; i < runs; i++ {
		c := &ConcCase{Kind: kinds[(i+s.Shard)%len(kinds)], Writers: 2 + rng.Intn(5), Readers: 1 + rng.Intn(3), Scans: 1 + rng.Intn(2),
			OpsPerW: s.Pick(400, 1500), Frames: 40 + rng.Intn(40), Seed: rng.Int63()}
		if (c.Kind == dbh.IdxSkip || c.Kind == dbh.IdxUniqSkip) && rng.Intn(3) != 0 {
			c.Wide = true
		}
		if c.Kind == dbh.IdxBtree {
			c.Frames += 30
		}
		cs := &concStats{}
		f, _ := vf.WithTimeout(150*time.Second, func() *vf.Failure { return runConc(c, cs) })
		s.Count(c, cs.scansOverlappingWrites > 0 || (c.Kind == dbh.IdxHash && cs.lookups > 0), "concurrent", "concurrent-kind:"+c.Kind)
		s.Class("concurrent-scans-overlapping-writes", cs.scansOverlappingWrites)
		s.Class("concurrent-scans-overlapping-an-entry-move", cs.scansOverlappingMoves)
		s.Class("concurrent-stable-lookups", cs.lookups)
		if f != nil {
			s.Judge(t, c, f)
			return
		}
	}
}
