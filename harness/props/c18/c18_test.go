// C18 — Index key encoding preserves order and round-trips; row ids pack losslessly.
// (1) exhaustive monotonicity over all int32 / all non-NaN float32 (thorough) or boundary neighbourhoods (quick);
// (2) rapid pairs of values x pairs of RIDs incl. strings; (3) RID pack/unpack round trips.
package c18

import (
	"bytes"
	"encoding/json"
	"fmt"
	"math"
	"os"
	"strconv"
	"testing"

	"github.com/ryogrid/SamehadaDB/lib/samehada/samehada_util"
	"github.com/ryogrid/SamehadaDB/lib/storage/page"
	"github.com/ryogrid/SamehadaDB/lib/types"
	"pgregory.net/rapid"

	"verifharness/vf"
)

type RID struct {
	P int32  `json:"p"`
	S uint32 `json:"s"`
}

func (r RID) rid() *page.RID { return &page.RID{PageID: types.PageID(r.P), SlotNum: r.S} }

var ridMin = RID{0, 0}
var ridMax = RID{math.MaxInt32, math.MaxUint32}

// Val is one key value of a type: T = "i" | "f" | "s".
type Val struct {
	T string `json:"t"`
	I int32  `json:"i,omitempty"`
	F uint32 `json:"fbits,omitempty"` // float32 bit pattern (JSON cannot carry Inf)
	S []byte `json:"s,omitempty"`
}

func (v Val) value() types.Value {
	switch v.T {
	case "i":
		return types.NewInteger(v.I)
	case "f":
		return types.NewFloat(math.Float32frombits(v.F))
	default:
		return types.NewVarchar(string(v.S))
	}
}

func (v Val) typeID() types.TypeID {
	switch v.T {
	case "i":
		return types.Integer
	case "f":
		return types.Float
	default:
		return types.Varchar
	}
}

// cmpDomain compares two values of the same type the way the values themselves compare.
func cmpDomain(a, b Val) int {
	switch a.T {
	case "i":
		switch {
		case a.I < b.I:
			return -1
		case a.I > b.I:
			return 1
		}
		return 0
	case "f":
		x, y := math.Float32frombits(a.F), math.Float32frombits(b.F)
		switch {
		case x < y:
			return -1
		case x > y:
			return 1
		}
		return 0
	default:
		return bytes.Compare(a.S, b.S)
	}
}

func enc(v Val, r RID) string {
	val := v.value()
	e := samehada_util.EncodeValueAndRIDToDicOrderComparableVarchar(&val, r.rid())
	return e.ToVarchar()
}

type Case struct {
	A  Val `json:"a"`
	B  Val `json:"b"`
	R1 RID `json:"r1"`
	R2 RID `json:"r2"`
}

func sign(x int) int {
	switch {
	case x < 0:
		return -1
	case x > 0:
		return 1
	}
	return 0
}

// checkPair is the whole oracle for one (a, r1), (b, r2).
func checkPair(c *Case) *vf.Failure {
	ea, eb := enc(c.A, c.R1), enc(c.B, c.R2)
	want := cmpDomain(c.A, c.B)
	got := sign(bytes.Compare([]byte(ea), []byte(eb)))
	if want != 0 {
		if got != want {
			return vf.Failf("order-"+c.A.T, "cmp(values)=%d but cmp(encodings)=%d for a=%s r1=%+v b=%s r2=%+v (enc % x vs % x)", want, got, show(c.A), c.R1, show(c.B), c.R2, trunc(ea), trunc(eb))
		}
		// the comparator the skip list actually uses on the encoded Varchar values
		va, vb := types.NewVarchar(ea), types.NewVarchar(eb)
		if va.CompareLessThan(vb) != (want < 0) || va.CompareGreaterThan(vb) != (want > 0) || va.CompareEquals(vb) {
			return vf.Failf("order-value-cmp-"+c.A.T, "Value comparison of the encodings disagrees with the values: a=%s b=%s", show(c.A), show(c.B))
		}
	} else {
		// same key: entries may differ only after the key part and must fall inside the ScanKey bounds of that key
		lo, hi := enc(c.A, ridMin), enc(c.A, ridMax)
		for _, e := range []string{ea, eb} {
			if e < lo || e > hi {
				return vf.Failf("bounds-"+c.A.T, "entry of key %s with rid %+v/%+v lies outside [enc(k,RID{0,0}), enc(k,RID{MaxInt32,MaxUint32})]", show(c.A), c.R1, c.R2)
			}
		}
		if len(ea) != len(eb) || ea[:len(ea)-8] != eb[:len(eb)-8] {
			return vf.Failf("same-key-prefix-"+c.A.T, "equal keys %s / %s encode with different key parts", show(c.A), show(c.B))
		}
		if (c.R1 != c.R2) == (ea == eb) {
			return vf.Failf("rid-suffix", "equal keys: rids %+v %+v, encodings equal=%v", c.R1, c.R2, ea == eb)
		}
	}
	// adjacency: nothing of another key sorts between two entries of one key = the bounds of a and b do not interleave
	if want < 0 {
		if !(enc(c.A, ridMax) < enc(c.B, ridMin)) {
			return vf.Failf("adjacency-"+c.A.T, "upper ScanKey bound of %s is not below lower bound of %s", show(c.A), show(c.B))
		}
	} else if want > 0 {
		if !(enc(c.B, ridMax) < enc(c.A, ridMin)) {
			return vf.Failf("adjacency-"+c.A.T, "upper ScanKey bound of %s is not below lower bound of %s", show(c.B), show(c.A))
		}
	}
	// round trips
	for _, p := range []struct {
		v Val
		r RID
		e string
	}{{c.A, c.R1, ea}, {c.B, c.R2, eb}} {
		ev := types.NewVarchar(p.e)
		d := samehada_util.ExtractOrgKeyFromDicOrderComparableEncodedVarchar(&ev, p.v.typeID())
		if f := sameVal(p.v, d, "decode-varchar"); f != nil {
			return f
		}
		if p.v.T != "s" {
			// the byte form the B-tree iterator hands to ...EncodedBytes: {isNull, len lo, len hi} + key + rid
			raw := append([]byte{0, byte(len(p.e) - 8), 0}, []byte(p.e)...)
			d2 := samehada_util.ExtractOrgKeyFromDicOrderComparableEncodedBytes(raw, p.v.typeID())
			if f := sameVal(p.v, d2, "decode-bytes"); f != nil {
				return f
			}
		} else {
			d2 := samehada_util.ExtractOrgKeyFromDicOrderComparableEncodedBytes([]byte(p.e)[:len(p.e)-12], types.Varchar)
			if f := sameVal(p.v, d2, "decode-bytes"); f != nil {
				return f
			}
		}
		if f := checkRID(p.r); f != nil {
			return f
		}
	}
	return nil
}

func sameVal(v Val, d *types.Value, cls string) *vf.Failure {
	if d == nil || d.IsNull() || d.ValueType() != v.typeID() {
		return vf.Failf(cls, "decoding %s gave %v", show(v), d)
	}
	switch v.T {
	case "i":
		if d.ToInteger() != v.I {
			return vf.Failf(cls+"-i", "decode(enc(%d)) = %d", v.I, d.ToInteger())
		}
	case "f":
		if d.ToFloat() != math.Float32frombits(v.F) { // value equality: -0.0 == +0.0
			return vf.Failf(cls+"-f", "decode(enc(%v)) = %v", math.Float32frombits(v.F), d.ToFloat())
		}
	default:
		if d.ToVarchar() != string(v.S) {
			return vf.Failf(cls+"-s", "decode(enc(%q)) = %q", trunc(string(v.S)), trunc(d.ToVarchar()))
		}
	}
	return nil
}

func checkRID(r RID) *vf.Failure {
	rid := r.rid()
	if got := samehada_util.UnpackUint64toRID(samehada_util.PackRIDtoUint64(rid)); got != *rid {
		return vf.Failf("rid-u64", "UnpackUint64toRID(PackRIDtoUint64(%+v)) = %+v", *rid, got)
	}
	if got := samehada_util.Unpack8BytesToRID(samehada_util.PackRIDto8bytes(rid)); got != *rid {
		return vf.Failf("rid-8b", "Unpack8BytesToRID(PackRIDto8bytes(%+v)) = %+v", *rid, got)
	}
	if r.S < 1<<16 {
		// the 6-byte form BTreeIndex stores: 4 bytes page id + low 2 bytes of the slot, re-expanded on read
		b := samehada_util.PackRIDto8bytes(rid)
		six := []byte{b[0], b[1], b[2], b[3], b[6], b[7]}
		eight := []byte{six[0], six[1], six[2], six[3], 0, 0, six[4], six[5]}
		if got := samehada_util.Unpack8BytesToRID(eight); got != *rid {
			return vf.Failf("rid-6b", "6-byte B-tree packing of %+v gives back %+v", *rid, got)
		}
	}
	return nil
}

func trunc(s string) string {
	if len(s) > 48 {
		return s[:48] + "…"
	}
	return s
}

func show(v Val) string {
	switch v.T {
	case "i":
		return fmt.Sprintf("int(%d)", v.I)
	case "f":
		return fmt.Sprintf("float(%v/%#x)", math.Float32frombits(v.F), v.F)
	default:
		return fmt.Sprintf("str(len %d %q)", len(v.S), trunc(string(v.S)))
	}
}

func nontrivial(c *Case) bool {
	if cmpDomain(c.A, c.B) == 0 {
		return false
	}
	ea, eb := enc(c.A, c.R1), enc(c.B, c.R2)
	return ea[0] == eb[0] // a shared non-empty prefix of encoded bytes: the order is decided late
}

const rule = "Case = (a, r1, b, r2): two values of one type (int32 / non-NaN float32 / NUL-free byte string of length 0-4000) and two row ids (page id in [0,2^31), slot in [0,2^32)). Oracle: cmp(enc(a,r1),enc(b,r2)) = cmp(a,b) when a != b (bytewise and through Value.Compare*), ScanKey bounds of different keys do not interleave (adjacency), equal keys share the key part and stay inside [enc(k,RID{0,0}),enc(k,RID{MaxInt32,MaxUint32})], decode(enc(v)) == v through both decoders, all RID pack/unpack forms round-trip. Non-trivial = a != b and the two encodings share a non-empty common prefix (order decided after the first byte). Exhaustive phases enumerate every int32 / every non-NaN float32 once in increasing order and check each consecutive pair with adversarial RIDs (smaller value with the maximal RID, larger with the minimal one)."

var assumptions = []string{
	"float keys compare as values: -0.0 and +0.0 are one key; NaN is outside the domain",
	"strings contain no NUL byte (stated domain) and are at most 4000 bytes",
	"B-tree 6-byte RID form checked for slot < 65536 (its supported range) by the same byte selection BTreeIndex performs",
}

// ---- generators ---------------------------------------------------------------------------------

var intDict = []int32{0, 1, -1, 2, -2, 127, 128, 255, 256, -128, -129, -256, -257, 65535, 65536, -65536, 1 << 24, -(1 << 24),
	math.MaxInt32, math.MaxInt32 - 1, math.MinInt32, math.MinInt32 + 1, 0x7F, 0x80, 0x7FFF, 0x8000, 0x7FFFFF, 0x800000}

var floatBitsDict = []uint32{0, 0x80000000, 1, 0x80000001, 0x007FFFFF, 0x807FFFFF, 0x00800000, 0x80800000, 0x3F800000, 0xBF800000,
	0x7F7FFFFF, 0xFF7FFFFF, 0x7F800000, 0xFF800000, 0x3F7FFFFF, 0x3F800001, 0x40000000, 0xC0000000, 0x4B000000, 0xCB000000}

func genRID(t *rapid.T, label string) RID {
	var r RID
	switch rapid.IntRange(0, 3).Draw(t, label+"k") {
	case 0:
		r.P = rapid.SampledFrom([]int32{0, 1, 255, 256, 65535, 65536, math.MaxInt32, math.MaxInt32 - 1, 0x7F, 0x80, 0x01000000}).Draw(t, label+"p")
		r.S = rapid.SampledFrom([]uint32{0, 1, 255, 256, 65535, 65536, math.MaxUint32, math.MaxUint32 - 1, 0x80000000, 0x7FFFFFFF}).Draw(t, label+"s")
	case 1:
		r.P = rapid.Int32Range(0, 300).Draw(t, label+"p")
		r.S = rapid.Uint32Range(0, 300).Draw(t, label+"s")
	default:
		r.P = rapid.Int32Range(0, math.MaxInt32).Draw(t, label+"p")
		r.S = rapid.Uint32().Draw(t, label+"s")
	}
	return r
}

func genBytes(t *rapid.T, label string) []byte {
	n := 0
	switch rapid.IntRange(0, 5).Draw(t, label+"lk") {
	case 0:
		n = rapid.IntRange(0, 3).Draw(t, label+"n")
	case 1, 2, 3:
		n = rapid.IntRange(0, 24).Draw(t, label+"n")
	case 4:
		n = rapid.IntRange(25, 300).Draw(t, label+"n")
	default:
		n = rapid.IntRange(300, 4000).Draw(t, label+"n")
	}
	alpha := rapid.SampledFrom([][]byte{
		[]byte("ab"), []byte("abcdefghijklmnopqrstuvwxyz"), {1, 2, 0xFF, 0xFE, 'a'}, {1, 0xFF}, []byte("aあ😀z"),
		[]byte("a b"), {' ', '\t', 'a', '\n'}, []byte(" "), []byte("aA%_'\"\\"), // blanks (leading, trailing, only), upper case, characters special elsewhere
	}).Draw(t, label+"alpha")
	b := make([]byte, n)
	if n <= 300 {
		for i := range b {
			b[i] = alpha[rapid.IntRange(0, len(alpha)-1).Draw(t, "c")]
		}
	} else {
		x := rapid.Uint32().Draw(t, label+"seed")
		for i := range b {
			x = x*1664525 + 1013904223
			b[i] = alpha[int(x>>16)%len(alpha)]
		}
	}
	return b
}

func genPair(t *rapid.T) *Case {
	c := &Case{R1: genRID(t, "r1"), R2: genRID(t, "r2")}
	if rapid.IntRange(0, 5).Draw(t, "sameRID") == 0 {
		c.R2 = c.R1
	}
	switch rapid.SampledFrom([]string{"i", "f", "s", "s"}).Draw(t, "type") {
	case "i":
		c.A.T, c.B.T = "i", "i"
		c.A.I = genInt(t, "a")
		switch rapid.IntRange(0, 3).Draw(t, "rel") {
		case 0:
			c.B.I = c.A.I
		case 1:
			c.B.I = c.A.I + rapid.SampledFrom([]int32{1, -1, 2, 255, 256, -256, 65536}).Draw(t, "d") // wrap-around is fine: still an int32
		default:
			c.B.I = genInt(t, "b")
		}
	case "f":
		c.A.T, c.B.T = "f", "f"
		c.A.F = genFloatBits(t, "a")
		switch rapid.IntRange(0, 3).Draw(t, "rel") {
		case 0:
			c.B.F = c.A.F
		case 1:
			c.B.F = c.A.F + uint32(rapid.SampledFrom([]int32{1, -1, 2, 256, -256}).Draw(t, "d"))
			if isNaN(c.B.F) {
				c.B.F = c.A.F
			}
		default:
			c.B.F = genFloatBits(t, "b")
		}
	default:
		c.A.T, c.B.T = "s", "s"
		c.A.S = genBytes(t, "a")
		switch rapid.IntRange(0, 5).Draw(t, "rel") {
		case 0:
			c.B.S = append([]byte{}, c.A.S...)
		case 1: // proper extension
			c.B.S = append(append([]byte{}, c.A.S...), genBytes(t, "ext")...)
		case 2: // last byte neighbour (for a string ending in a blank this is also "the same text with / without trailing blank")
			c.B.S = append([]byte{}, c.A.S...)
			if n := len(c.B.S); n > 0 {
				if c.B.S[n-1] < 0xFF {
					c.B.S[n-1]++
				} else {
					c.B.S[n-1]--
				}
			}
		case 3: // shared prefix, different tails
			k := 0
			if len(c.A.S) > 0 {
				k = rapid.IntRange(0, len(c.A.S)).Draw(t, "cut")
			}
			c.B.S = append(append([]byte{}, c.A.S[:k]...), genBytes(t, "tail")...)
		default:
			c.B.S = genBytes(t, "b")
		}
	}
	return c
}

func isNaN(bits uint32) bool { return bits&0x7F800000 == 0x7F800000 && bits&0x007FFFFF != 0 }

func genInt(t *rapid.T, l string) int32 {
	switch rapid.IntRange(0, 2).Draw(t, l+"k") {
	case 0:
		return rapid.SampledFrom(intDict).Draw(t, l)
	case 1:
		return rapid.Int32Range(-300, 300).Draw(t, l)
	}
	return rapid.Int32().Draw(t, l)
}

func genFloatBits(t *rapid.T, l string) uint32 {
	var b uint32
	switch rapid.IntRange(0, 2).Draw(t, l+"k") {
	case 0:
		b = rapid.SampledFrom(floatBitsDict).Draw(t, l)
	case 1:
		b = math.Float32bits(float32(rapid.Int32Range(-2000, 2000).Draw(t, l)) / 8)
	default:
		b = rapid.Uint32().Draw(t, l)
	}
	if isNaN(b) {
		b &^= 0x007FFFFF // -> +-Inf
	}
	return b
}

func TestSearch(t *testing.T) {
	s := vf.Open("C18")
	s.Rule, s.Assumptions = rule, assumptions
	defer func() { s.Flush(!t.Failed()) }()
	rapid.Check(t, func(rt *rapid.T) {
		c := genPair(rt)
		f := vf.Guard(func() *vf.Failure { return checkPair(c) })
		cls := "type-" + c.A.T
		rel := "eq"
		if cmpDomain(c.A, c.B) != 0 {
			rel = "ne"
		}
		s.Count(c, nontrivial(c), cls, cls+"-"+rel)
		s.Judge(rt, c, f)
	})
}

// ---- exhaustive / neighbourhood enumeration ---------------------------------------------------

// ordinal <-> float32 in numeric order; -0 and +0 are adjacent ordinals.
func floatFromOrd(o uint64) uint32 {
	const negCount = 0x7F800001 // -Inf .. -0  (0xFF800000 down to 0x80000000)
	if o < negCount {
		return uint32(0xFF800000 - o)
	}
	return uint32(o - negCount) // +0 .. +Inf
}

const floatOrdCount = 0x7F800001 + 0x7F800001

func encKey(v Val, r RID) string { return enc(v, r) }

// sweep checks every consecutive pair in [lo, hi) of the ordinal space of a type.
func sweep(s *vf.Session, typ string, lo, hi uint64, sampleEvery uint64) (*vf.Failure, *Case, int64, int64) {
	mk := func(o uint64) Val {
		if typ == "i" {
			return Val{T: "i", I: int32(int64(o) + math.MinInt32)}
		}
		return Val{T: "f", F: floatFromOrd(o)}
	}
	var n, nt int64
	prev := mk(lo)
	prevHi := encKey(prev, ridMax)
	for o := lo + 1; o <= hi; o++ {
		cur := mk(o)
		curLo := encKey(cur, ridMin)
		n++
		d := cmpDomain(prev, cur)
		bad := false
		if d < 0 {
			bad = !(prevHi < curLo)
			if prevHi[0] == curLo[0] {
				nt++
			}
		} else if d == 0 { // -0.0 / +0.0
			bad = prevHi[:len(prevHi)-8] != curLo[:len(curLo)-8]
		} else {
			return vf.Failf("enumeration-bug", "ordinals out of order at %d", o), nil, n, nt
		}
		// round trip of every value
		ev := types.NewVarchar(curLo)
		dv := samehada_util.ExtractOrgKeyFromDicOrderComparableEncodedVarchar(&ev, cur.typeID())
		if f := sameVal(cur, dv, "decode-varchar"); f != nil {
			return f, &Case{A: prev, B: cur, R1: ridMax, R2: ridMin}, n, nt
		}
		if bad {
			c := &Case{A: prev, B: cur, R1: ridMax, R2: ridMin}
			f := checkPair(c)
			if f == nil {
				f = vf.Failf("order-"+typ, "consecutive values %s < %s but enc(a,maxRID) !< enc(b,minRID)", show(prev), show(cur))
			}
			return f, c, n, nt
		}
		if sampleEvery > 0 && o%sampleEvery == 0 {
			c := &Case{A: prev, B: cur, R1: ridMax, R2: ridMin}
			s.AddSample(c)
			b, _ := json.Marshal(c)
			s.AddDistinct(vf.Hash(b))
		}
		prev = cur
		prevHi = encKey(cur, ridMax)
	}
	return nil, nil, n, nt
}

func TestExhaustive(t *testing.T) {
	s := vf.Open("C18")
	s.Rule, s.Assumptions = rule, assumptions
	defer func() { s.Flush(!t.Failed()) }()
	nsh, _ := strconv.Atoi(os.Getenv("VERIF_NSHARDS"))
	if nsh < 1 {
		nsh = 1
	}
	type job struct {
		typ    string
		lo, hi uint64
	}
	var jobs []job
	if s.Thorough() && os.Getenv("VERIF_C18_WINDOWS") == "" {
		s.Exhaustive = true
		s.Notes["exhaustive_claim"] = "all 2^32 int32 values and all 4278190082 non-NaN float32 values, each consecutive pair in numeric order"
		for _, tt := range []struct {
			typ string
			n   uint64
		}{{"i", 1 << 32}, {"f", floatOrdCount}} {
			per := (tt.n + uint64(nsh) - 1) / uint64(nsh)
			lo := per * uint64(s.Shard)
			hi := lo + per
			if hi > tt.n-1 {
				hi = tt.n - 1
			}
			if lo < hi {
				jobs = append(jobs, job{tt.typ, lo, hi})
			}
		}
	} else {
		// quick: windows of +-W around every boundary ordinal, round-robin over shards
		s.Notes["windows"] = "quick tier: windows of 2^17 consecutive values around type boundaries (0, +-2^k, min, max, denormal/normal edge, +-MaxFloat32, +-Inf); not exhaustive"
		const W = 1 << 16
		var centers []job
		for k := uint(0); k <= 32; k++ {
			o := uint64(1) << k
			if k == 32 {
				o = 1<<32 - 1
			}
			centers = append(centers, job{"i", o, 0}, job{"i", (1 << 31) + o%(1<<31), 0}, job{"i", (1 << 31) - o%(1<<31), 0})
		}
		for _, b := range floatBitsDict {
			var o uint64
			if b&0x80000000 != 0 {
				o = uint64(0xFF800000 - b)
			} else {
				o = uint64(b) + 0x7F800001
			}
			centers = append(centers, job{"f", o, 0})
		}
		for k := uint(0); k < 31; k++ {
			centers = append(centers, job{"f", 0x7F800001 + (uint64(1) << k), 0}, job{"f", 0x7F800001 - (uint64(1) << k), 0})
		}
		for i, c := range centers {
			if i%nsh != s.Shard {
				continue
			}
			max := uint64(1<<32 - 1)
			if c.typ == "f" {
				max = floatOrdCount - 1
			}
			lo, hi := uint64(0), c.lo+W
			if c.lo > W {
				lo = c.lo - W
			}
			if hi > max {
				hi = max
			}
			if lo > max {
				continue
			}
			jobs = append(jobs, job{c.typ, lo, hi})
		}
	}
	for _, j := range jobs {
		f, c, n, nt := sweep(s, j.typ, j.lo, j.hi, 1<<22+12345)
		s.CountN(n, nt, "consecutive-"+j.typ)
		if f != nil {
			s.Judge(t, c, f)
			return
		}
	}
	s.Notes["exhaustive_note"] = "distinct_nontrivial under-counts enumerated phases on purpose (only sampled pairs are hashed); nontrivial_evaluations is exact and all enumerated pairs are distinct by construction"
}

func TestReplay(t *testing.T) {
	s := vf.Open("C18")
	s.Rule, s.Assumptions = rule, assumptions
	defer func() { s.Flush(true) }()
	s.Replay(func(raw json.RawMessage) *vf.Failure {
		var c Case
		if err := json.Unmarshal(raw, &c); err != nil {
			return vf.Failf("bad-case", "%v", err)
		}
		return vf.Guard(func() *vf.Failure { return checkPair(&c) })
	})
}
