// C19 — Concurrent use of the engine is free of data races on the data path.
// The goroutine workloads (concurrent SQL calls, multi-statement transactions, index operations,
// forced checkpoints, statistics updates, small pools) run in a binary built with -race; the race
// detector's reports are parsed and de-duplicated by the pair of innermost repository functions.
package c19

import (
	"encoding/json"
	"fmt"
	"math/rand"
	"os"
	"path/filepath"
	"regexp"
	"runtime"
	"sort"
	"strings"
	"sync"
	"sync/atomic"
	"testing"
	"time"

	"github.com/ryogrid/SamehadaDB/lib/storage/page"
	"github.com/ryogrid/SamehadaDB/lib/storage/tuple"
	"github.com/ryogrid/SamehadaDB/lib/types"

	"verifharness/dbh"
	"verifharness/vf"
)

type Case struct {
	Workload string `json:"workload"` // sql | txn | index:<kind> | mixed
	Clients  int    `json:"clients"`
	Ops      int    `json:"ops"`
	KB       int    `json:"kb"`
	Bulk     int    `json:"bulk,omitempty"` // extra ~900-byte rows in u so that the working set exceeds the pool
	File     bool   `json:"file"`
	Seed     int64  `json:"seed"`
}

const repoPrefix = "github.com/ryogrid/SamehadaDB/lib/"

var frameRe = regexp.MustCompile(`^\s+(\S+)\(`)

// innermost repository function of one access stack (lines after the "… at 0x… by goroutine N:" header)
func innermostRepoFunc(lines []string) (fn string, any bool) {
	for _, l := range lines {
		if m := frameRe.FindStringSubmatch(l); m != nil {
			f := m[1]
			if strings.HasPrefix(f, repoPrefix) {
				return strings.TrimPrefix(f, repoPrefix), true
			}
		}
	}
	return "", false
}

type raceReport struct {
	pair   string
	kinds  string
	sample string
}

// parseReports splits race detector output into reports and reduces each to a function pair.
// thirdParty: the first frame that is not Go runtime / standard library belongs to a module other than this repository or the harness.
func thirdParty(lines []string) bool {
	for _, l := range lines {
		m := frameRe.FindStringSubmatch(l)
		if m == nil {
			continue
		}
		f := m[1]
		parts := strings.SplitN(f, "/", 2)
		if len(parts) < 2 || !strings.Contains(parts[0], ".") {
			continue // runtime.*, sync/atomic.*, bytes.*, ... (standard library)
		}
		return !strings.HasPrefix(f, repoPrefix) && !strings.HasPrefix(f, "verifharness")
	}
	return false
}

// dataPath: the function belongs to the storage-engine packages the property names (pages, page tables,
// lock tables, log buffers, index nodes, catalog maps).
func dataPath(fn string) bool {
	for _, p := range []string{"storage/", "recovery", "container/", "catalog", "samehada.", "samehada/", "common.", "concurrency."} {
		if strings.HasPrefix(fn, p) {
			return true
		}
	}
	return false
}

var offPath int
var harnessReports int

func harnessAccess(lines []string) bool {
	for _, l := range lines {
		m := frameRe.FindStringSubmatch(l)
		if m == nil {
			continue
		}
		parts := strings.SplitN(m[1], "/", 2)
		if strings.HasPrefix(m[1], "verifharness") {
			return true
		}
		if len(parts) < 2 || !strings.Contains(parts[0], ".") {
			continue
		}
		return false
	}
	return false
}

func parseReports(text string) (inRepo []raceReport, external int) {
	blocks := strings.Split(text, "==================")
	for _, b := range blocks {
		if !strings.Contains(b, "WARNING: DATA RACE") {
			continue
		}
		lines := strings.Split(b, "\n")
		var stacks [][]string
		var kinds []string
		cur := -1
		for _, l := range lines {
			t := strings.TrimSpace(l)
			switch {
			case strings.HasPrefix(t, "Write at "), strings.HasPrefix(t, "Read at "), strings.HasPrefix(t, "Previous write at "), strings.HasPrefix(t, "Previous read at "),
				strings.HasPrefix(t, "Atomic write at "), strings.HasPrefix(t, "Atomic read at "), strings.HasPrefix(t, "Previous atomic write at "), strings.HasPrefix(t, "Previous atomic read at "):
				stacks = append(stacks, nil)
				kinds = append(kinds, strings.SplitN(t, " at ", 2)[0])
				cur = len(stacks) - 1
			case strings.HasPrefix(t, "Goroutine ") && strings.Contains(t, "created at"):
				cur = -1
			default:
				if cur >= 0 {
					stacks[cur] = append(stacks[cur], l)
				}
			}
		}
		if len(stacks) < 2 {
			continue
		}
		// racing accesses made by code of a third-party module (first non-runtime frame of both stacks is outside
		// this repository, e.g. the B-link tree container) are recorded but are not findings of this repository
		if thirdParty(stacks[0]) && thirdParty(stacks[1]) {
			external++
			continue
		}
		if harnessAccess(stacks[0]) || harnessAccess(stacks[1]) {
			harnessReports++ // an access made by harness code itself (e.g. a process-global switch): harness noise, not the engine
			continue
		}
		a, okA := innermostRepoFunc(stacks[0])
		bb, okB := innermostRepoFunc(stacks[1])
		if !okA && !okB {
			external++
			continue
		}
		if !okA {
			a = "(outside repository)"
		}
		if !okB {
			bb = "(outside repository)"
		}
		if !dataPath(a) && !dataPath(bb) {
			offPath++
			continue
		}
		p := []string{a, bb}
		sort.Strings(p)
		s := b
		if len(s) > 5000 {
			s = s[:5000]
		}
		inRepo = append(inRepo, raceReport{pair: p[0] + " | " + p[1], kinds: strings.Join(kinds, "/"), sample: s})
	}
	return
}

// ---- workloads ---------------------------------------------------------------------------------------

// threadsWorkload runs a few clients on an instance whose own background threads (checkpoint, statistics) are running
// and then shuts the instance down through the public Shutdown while they are alive.
func threadsWorkload(c *Case) bool {
	dbh.NoBackground(false)
	defer dbh.NoBackground(true)
	dir := dbh.TempDir("c19th")
	defer os.RemoveAll(dir)
	db := dbh.Open(dir+"/db", 800, true)
	db.FrontDoor("CREATE TABLE t(id int, g int, v int);")
	for i := 0; i < 20; i++ {
		db.FrontDoor(fmt.Sprintf("INSERT INTO t(id, g, v) VALUES (%d, %d, 0);", i, i%4))
	}
	var wg sync.WaitGroup
	for w := 0; w < 3; w++ {
		wg.Add(1)
		go func(w int) {
			defer wg.Done()
			for n := 0; n < 40; n++ {
				if n%2 == 0 {
					db.S.ExecuteSQL(fmt.Sprintf("UPDATE t SET v = %d WHERE g = %d;", n, (w+n)%4))
				} else {
					db.S.ExecuteSQL(fmt.Sprintf("SELECT id, v FROM t WHERE g = %d;", (w+n)%4))
				}
			}
		}(w)
	}
	wg.Wait()
	time.Sleep(50 * time.Millisecond)
	func() { defer func() { recover() }(); db.Shutdown() }()
	return true
}

// emptiedWorkload: again and again a fresh table gets a page full of small rows, all rows are deleted, and then scans start
// on the emptied heap while a row too large for the space behind the dead slots is inserted (a page is appended behind the
// empty one and linked to it).
func emptiedWorkload(c *Case) bool {
	dbh.NoBackground(true)
	db := dbh.Open("c19e", 120, false) // 30 frames, no index pins them: the filler table below does not fit
	defer func() { func() { defer func() { recover() }(); db.Stop() }() }()
	db.CreateTable(&dbh.TableDef{Name: "filler", Cols: []dbh.Col{{Name: "id", T: "i", Idx: dbh.IdxNone}, {Name: "s", T: "s", Idx: dbh.IdxNone}}})
	for b := 0; b < 160; b += 20 {
		var vals []string
		for i := b; i < b+20; i++ {
			vals = append(vals, fmt.Sprintf("(%d, '%s')", i, strings.Repeat("f", 900)))
		}
		db.FrontDoor("INSERT INTO filler(id, s) VALUES " + strings.Join(vals, ", ") + ";")
	}
	for trial := 0; trial < 25; trial++ {
		name := fmt.Sprintf("em%d", trial)
		if err := db.CreateTable(&dbh.TableDef{Name: name, Cols: []dbh.Col{{Name: "id", T: "i", Idx: dbh.IdxNone}, {Name: "s", T: "s", Idx: dbh.IdxNone}}}); err != nil {
			return false
		}
		for b := 0; b < 150; b += 50 {
			var vals []string
			for i := b; i < b+50; i++ {
				vals = append(vals, fmt.Sprintf("(%d, 'x')", i))
			}
			db.FrontDoor("INSERT INTO " + name + "(id, s) VALUES " + strings.Join(vals, ", ") + ";")
		}
		db.FrontDoor("DELETE FROM " + name + " WHERE id >= 0 OR id = 7777777;")
		var wg sync.WaitGroup
		for g := 0; g < 4; g++ {
			wg.Add(1)
			go func(g int) {
				defer wg.Done()
				for n := 0; n < 6; n++ {
					db.S.ExecuteSQL("SELECT id FROM " + name + " WHERE id >= 0 OR id = 7777777;")
					if g == 0 { // frames are recycled all the time
						db.S.ExecuteSQL("SELECT id FROM filler WHERE id >= 0 OR id = 7777777;")
					}
				}
			}(g)
		}
		wg.Add(1)
		go func() {
			defer wg.Done()
			db.S.ExecuteSQL(fmt.Sprintf("INSERT INTO %s(id, s) VALUES (1000, '%s');", name, strings.Repeat("e", 3400)))
		}()
		wg.Wait()
	}
	return true
}

// bigLogWorkload: one transaction writes more log than the log buffer holds (no commit, eviction or checkpoint flushes it in
// between: large pool) while other goroutines keep appending records of their own small transactions.
func bigLogWorkload(c *Case) bool {
	dbh.NoBackground(true)
	db := dbh.Open("c19bl", 8000, false)
	defer func() { func() { defer func() { recover() }(); db.Stop() }() }()
	db.CreateTable(&dbh.TableDef{Name: "big", Cols: []dbh.Col{{Name: "id", T: "i", Idx: dbh.IdxNone}, {Name: "s", T: "s", Idx: dbh.IdxNone}}})
	db.FrontDoor("CREATE TABLE small(id int, v int);")
	for i := 0; i < 10; i++ {
		db.FrontDoor(fmt.Sprintf("INSERT INTO small(id, v) VALUES (%d, %d);", i, i))
	}
	var stop int32
	var wg sync.WaitGroup
	for r := 0; r < 5; r++ {
		wg.Add(1)
		go func(r int) {
			defer wg.Done()
			for n := 0; atomic.LoadInt32(&stop) == 0 && n < 20000; n++ {
				db.S.ExecuteSQL(fmt.Sprintf("SELECT v FROM small WHERE id = %d;", (r+n)%10))
			}
		}(r)
	}
	t := db.Begin()
	for i := 0; i < 220 && !t.Done; i++ {
		t.ExecSQL(fmt.Sprintf("INSERT INTO big(id, s) VALUES (%d, '%s');", i, strings.Repeat("B", 3300)), nil)
	}
	if !t.Done {
		t.Commit()
	}
	atomic.StoreInt32(&stop, 1)
	wg.Wait()
	return true
}

func runWorkload(c *Case) (overlap bool, f *vf.Failure) {
	if c.Workload == "biglog" {
		return bigLogWorkload(c), nil
	}
	if c.Workload == "threads" {
		return threadsWorkload(c), nil
	}
	if c.Workload == "emptied" {
		return emptiedWorkload(c), nil
	}
	dbh.NoBackground(true)
	var db *dbh.DB
	dir := ""
	if c.File {
		dir = dbh.TempDir("c19")
		defer os.RemoveAll(dir)
		db = dbh.Open(dir+"/db", c.KB, true)
	} else {
		db = dbh.Open("c19", c.KB, false)
	}
	defer func() { func() { defer func() { recover() }(); db.Stop() }() }()
	if strings.HasPrefix(c.Workload, "index:") {
		return indexWorkload(db, c), nil
	}
	if _, err := db.FrontDoor("CREATE TABLE t(id int, g int, v int);"); err != nil {
		return false, vf.Failf("create-error", "%v", err)
	}
	if err := db.CreateTable(&dbh.TableDef{Name: "e", Cols: []dbh.Col{{Name: "id", T: "i", Idx: dbh.IdxSkip}, {Name: "s", T: "s", Idx: dbh.IdxNone}}}); err != nil {
		return false, vf.Failf("create-error", "%v", err)
	}
	if err := db.CreateTable(&dbh.TableDef{Name: "u", Cols: []dbh.Col{{Name: "id", T: "i", Idx: dbh.IdxSkip}, {Name: "s", T: "s", Idx: dbh.IdxNone}}}); err != nil {
		return false, vf.Failf("create-error", "%v", err)
	}
	for i := 0; i < 40; i++ {
		db.FrontDoor(fmt.Sprintf("INSERT INTO t(id, g, v) VALUES (%d, %d, 0);", i, i%4))
		db.FrontDoor(fmt.Sprintf("INSERT INTO u(id, s) VALUES (%d, '%s');", i, strings.Repeat("p", 200+i)))
	}
	for i := 0; i < c.Bulk; i++ {
		db.FrontDoor(fmt.Sprintf("INSERT INTO u(id, s) VALUES (%d, '%s');", 40+i, strings.Repeat("b", 880+i%40)))
	}
	uRows := 40 + c.Bulk
	var wg sync.WaitGroup
	var stop int32
	var active, maxActive int32
	enter := func() {
		n := atomic.AddInt32(&active, 1)
		for {
			m := atomic.LoadInt32(&maxActive)
			if n <= m || atomic.CompareAndSwapInt32(&maxActive, m, n) {
				break
			}
		}
	}
	leave := func() { atomic.AddInt32(&active, -1) }
	var nextID int64 = 1000
	sqlClient := func(id int) {
		defer wg.Done()
		rng := rand.New(rand.NewSource(c.Seed*31 + int64(id)))
		for n := 0; n < c.Ops; n++ {
			var q string
			switch rng.Intn(6) {
			case 0:
				q = fmt.Sprintf("UPDATE t SET v = %d WHERE g = %d;", rng.Intn(1000), rng.Intn(4))
			case 1:
				q = fmt.Sprintf("SELECT id, v FROM t WHERE g = %d;", rng.Intn(4))
			case 2:
				if rng.Intn(2) == 0 {
					// long rows: the heap grows by a page every few inserts, while other clients insert into the same heap
					q = fmt.Sprintf("INSERT INTO u(id, s) VALUES (%d, '%s');", atomic.AddInt64(&nextID, 1), strings.Repeat("n", 300+rng.Intn(400)))
				} else {
					q = fmt.Sprintf("INSERT INTO t(id, g, v) VALUES (%d, %d, 1);", atomic.AddInt64(&nextID, 1), 10+rng.Intn(3))
				}
			case 3:
				q = fmt.Sprintf("SELECT t.id, u.id FROM t, u WHERE t.id = u.id AND t.g = %d;", rng.Intn(4))
			case 4:
				q = fmt.Sprintf("UPDATE u SET s = '%s' WHERE id = %d;", strings.Repeat("q", 100+rng.Intn(900)), rng.Intn(uRows))
			default:
				q = fmt.Sprintf("DELETE FROM t WHERE id = %d;", 1000+rng.Intn(50))
			}
			enter()
			db.S.ExecuteSQL(q)
			leave()
		}
	}
	txnClient := func(id int) {
		defer wg.Done()
		rng := rand.New(rand.NewSource(c.Seed*77 + int64(id)))
		for n := 0; n < c.Ops/2+1; n++ {
			enter()
			t := db.Begin()
			mustAbort := false
			for k := 0; k < 1+rng.Intn(3) && !t.Done; k++ {
				switch rng.Intn(4) {
				case 3: // deletes that are rolled back afterwards (the rows stay for the other clients): concurrent RollbackDelete on shared pages
					t.ExecSQL(fmt.Sprintf("DELETE FROM t WHERE id = %d;", rng.Intn(40)), nil)
					if !t.Done && rng.Intn(2) == 0 {
						t.ExecSQL(fmt.Sprintf("DELETE FROM t WHERE id = %d;", rng.Intn(40)), nil)
					}
					mustAbort = true
				case 0:
					t.ExecSQL(fmt.Sprintf("SELECT id, v FROM t WHERE id = %d;", rng.Intn(40)), nil)
				case 1:
					t.ExecSQL(fmt.Sprintf("UPDATE t SET v = %d WHERE id = %d;", rng.Intn(1000), rng.Intn(40)), nil)
				default:
					a := rng.Intn(uRows)
					t.ExecSQL(fmt.Sprintf("SELECT id FROM u WHERE id >= %d AND id <= %d;", a, a+rng.Intn(20)), nil)
				}
			}
			if !t.Done {
				if mustAbort || rng.Intn(4) == 0 {
					t.Abort()
				} else {
					t.Commit()
				}
			}
			leave()
		}
	}
	backgroundLoop := func() {
		for atomic.LoadInt32(&stop) == 0 {
			db.Checkpoint()
			time.Sleep(3 * time.Millisecond)
			for _, tm := range db.Cat().GetAllTables() { // as the engine's own statistics thread does: every table, also ones being created
				t := db.Begin()
				tm.GetStatistics().Update(tm, t.T)
				if !t.Done {
					t.Commit()
				}
			}
			time.Sleep(3 * time.Millisecond)
		}
	}
	n := c.Clients
	for i := 0; i < n; i++ {
		wg.Add(1)
		switch {
		case c.Workload == "sql":
			go sqlClient(i)
		case c.Workload == "txn":
			go txnClient(i)
		default:
			if i%2 == 0 {
				go sqlClient(i)
			} else {
				go txnClient(i)
			}
		}
	}
	var bg sync.WaitGroup
	if c.Workload == "mixed" || c.Workload == "ddl" {
		bg.Add(1)
		go func() { defer bg.Done(); backgroundLoop() }()
	}
	if c.Workload == "ddl" {
		// tables are created all through the run while two more goroutines refresh the statistics of every table
		// (catalog tables included) without pause, as the engine's own statistics thread does periodically
		for k := 0; k < 2; k++ {
			bg.Add(1)
			go func() {
				defer bg.Done()
				for atomic.LoadInt32(&stop) == 0 {
					for _, tm := range db.Cat().GetAllTables() {
						t := db.Begin()
						tm.GetStatistics().Update(tm, t.T)
						if !t.Done {
							t.Commit()
						}
					}
				}
			}()
		}
		wg.Add(1)
		go func() {
			defer wg.Done()
			for n := 0; n < 5; n++ {
				enter()
				db.S.ExecuteSQL(fmt.Sprintf("CREATE TABLE y%d(a int, b int);", n))
				db.S.ExecuteSQL(fmt.Sprintf("INSERT INTO y%d(a, b) VALUES (%d, 1);", n, n))
				leave()
				time.Sleep(5 * time.Millisecond)
			}
		}()
	}
	if c.Workload == "mixed" && c.KB >= 240 && c.Bulk == 0 {
		// a client that creates tables while the others work (CREATE TABLE flushes catalog pages); every table keeps
		// six more frames pinned for its two skip-list indexes, so only in the larger pools and only three tables
		wg.Add(1)
		go func() {
			defer wg.Done()
			for n := 0; n < 3; n++ {
				enter()
				db.S.ExecuteSQL(fmt.Sprintf("CREATE TABLE x%d(a int, b varchar(20));", n))
				db.S.ExecuteSQL(fmt.Sprintf("INSERT INTO x%d(a, b) VALUES (%d, 'ddl');", n, n))
				db.S.ExecuteSQL(fmt.Sprintf("SELECT a, b FROM x%d WHERE a = %d;", n, n))
				leave()
				time.Sleep(2 * time.Millisecond)
			}
		}()
	}
	clientsDone := make(chan struct{})
	go func() { wg.Wait(); close(clientsDone) }()
	if !vf.WaitScheduled(clientsDone, 240*time.Second) {
		atomic.StoreInt32(&stop, 1)
		return atomic.LoadInt32(&maxActive) >= 2, vf.Failf("workload-hang", "workload %s did not finish within 240 s", c.Workload)
	}
	atomic.StoreInt32(&stop, 1)
	bgDone := make(chan struct{})
	go func() { bg.Wait(); close(bgDone) }()
	if !vf.WaitScheduled(bgDone, 60*time.Second) {
		return atomic.LoadInt32(&maxActive) >= 2, vf.Failf("workload-hang", "background goroutine of workload %s did not stop within 60 s", c.Workload)
	}
	return atomic.LoadInt32(&maxActive) >= 2, nil
}

func indexWorkload(db *dbh.DB, c *Case) bool {
	kind := strings.TrimPrefix(c.Workload, "index:")
	db.CreateTable(&dbh.TableDef{Name: "x", Cols: []dbh.Col{{Name: "k", T: "i", Idx: kind}}})
	tm := db.Cat().GetTableByName("x")
	idx := tm.GetIndex(0)
	sc := tm.Schema()
	tup := func(k int32) *tuple.Tuple {
		v := types.NewInteger(k)
		return tuple.GenTupleForIndexSearch(sc, 0, &v)
	}
	var wg sync.WaitGroup
	for w := 0; w < c.Clients; w++ {
		wg.Add(1)
		go func(w int) {
			defer wg.Done()
			defer func() {
				if r := recover(); r != nil {
					buf := make([]byte, 1<<16)
					n := runtime.Stack(buf, false)
					os.WriteFile(fmt.Sprintf("%s/indexpanic-%s-%d-%d.txt", os.Getenv("VERIF_OUT"), kind, c.Seed%1000, w), []byte(fmt.Sprintf("%v\n%s", r, buf[:n])), 0o644)
				}
			}()
			rng := rand.New(rand.NewSource(c.Seed*13 + int64(w)))
			own := map[int32]page.RID{}
			for n := 0; n < c.Ops*4; n++ {
				k := int32(16*rng.Intn(300) + w) // w < 16: every worker owns its residue class (a unique index must never see the same key twice)
				if rid, ok := own[k]; ok {
					idx.DeleteEntry(tup(k), rid, nil)
					delete(own, k)
				} else {
					rid := page.RID{PageID: types.PageID(50 + w), SlotNum: uint32(n)}
					idx.InsertEntry(tup(k), rid, nil)
					own[k] = rid
				}
				if n%3 == 0 {
					idx.ScanKey(tup(int32(16*rng.Intn(300)+rng.Intn(c.Clients))), nil)
				}
				if n%7 == 0 && kind != dbh.IdxHash {
					it := idx.GetRangeScanIterator(tup(int32(rng.Intn(2400))), tup(int32(2400+rng.Intn(2400))), nil)
					for i := 0; i < 5000; i++ {
						if done, _, _, _ := it.Next(); done {
							break
						}
					}
				}
			}
		}(w)
	}
	wg.Wait()
	return c.Clients >= 2
}

// ---- test ------------------------------------------------------------------------------------------------

const rule = "Case = one run of a concurrent workload in a -race binary: 'sql' (4-12 goroutines calling SamehadaDB.ExecuteSQL: multi-row updates, selects, inserts, deletes, joins, relocating updates), 'txn' (multi-statement transactions through parser/optimizer/planner/executors with commit/abort), 'mixed' (both + a goroutine forcing checkpoints and refreshing table statistics + a client creating tables), 'ddl' (sql/txn clients + a client creating tables all through the run + goroutines refreshing the statistics of every table without pause), 'emptied' (fresh tables whose only page is emptied, then scanned while a too-large row makes the heap grow), 'biglog' (one transaction writes more log than the log buffer holds while readers append their own records), 'threads' (clients on an instance whose own checkpoint and statistics threads run, ended by the public Shutdown), 'index:<kind>' (inserters/deleters/readers/range scanners on one skip-list / unique-skip-list / B-tree / hash index); pools small enough to evict; in-memory and file-backed storage. Oracle: every WARNING: DATA RACE report of the Go race detector whose racing accesses have a frame inside github.com/ryogrid/SamehadaDB/lib is a violation, identified by the unordered pair of innermost repository functions (reports entirely inside third-party modules or the harness are counted but do not count). Non-trivial = a run in which at least two goroutines were inside engine calls at the same time."

var assumptions = []string{
	"the race detector only sees executed schedules; absence of reports is not absence of races",
	"reports are de-duplicated by function pair, not by line, so that unrelated edits do not rename a known finding",
	"background checkpoint/statistics threads are replaced by harness goroutines that do the same calls (bounded)",
}

func TestRace(t *testing.T) {
	s := vf.Open("C19")
	s.Rule, s.Assumptions = rule, assumptions
	finished := false // (the testing package itself marks the test failed when the detector reported anything)
	defer func() { s.Flush(finished) }()
	logPrefix := os.Getenv("VERIF_RACE_LOG")
	if logPrefix == "" {
		t.Skip("VERIF_RACE_LOG not set (driver sets GORACE log_path)")
	}
	rng := rand.New(rand.NewSource(s.Seed*6151 + int64(s.Shard)))
	workloads := []string{"sql", "txn", "mixed", "index:" + dbh.IdxSkip, "mixed", "index:" + dbh.IdxUniqSkip, "sql", "index:" + dbh.IdxBtree, "ddl", "index:" + dbh.IdxHash, "threads", "emptied", "biglog", "sql"}
	runs := s.Pick(8, 40)
	hangs := 0
	for i := 0; i < runs; i++ {
		c := &Case{Workload: workloads[(i*4+s.Shard)%len(workloads)], Clients: 4 + rng.Intn(9), Ops: s.Pick(60, 150), KB: []int{160, 240, 800}[rng.Intn(3)], File: s.Shard%3 == 0, Seed: rng.Int63()}
		if strings.HasPrefix(c.Workload, "index:") {
			c.KB = 400
		} else if c.Workload == "ddl" {
			c.KB, c.Clients = 800, 4 // every created table pins six more frames for good
		} else if i%2 == 1 {
			// working set larger than the pool: dirty pages are evicted while other goroutines commit
			c.KB, c.Bulk = []int{160, 200}[rng.Intn(2)], 160+rng.Intn(80)
			c.Ops = c.Ops * 2 / 3
			if c.Clients > 8 {
				c.Clients = 8
			}
		}
		var overlap bool
		t0 := time.Now()
		f, _ := vf.WithTimeout(300*time.Second, func() *vf.Failure {
			var ff *vf.Failure
			overlap, ff = runWorkload(c)
			return ff
		})
		s.Count(c, overlap, "workload:"+c.Workload)
		fmt.Fprintf(os.Stderr, "c19 run %d shard %d %s clients=%d ops=%d kb=%d bulk=%d file=%v: %.1fs\n", i, s.Shard, c.Workload, c.Clients, c.Ops, c.KB, c.Bulk, c.File, time.Since(t0).Seconds())
		if f != nil && f.Class == "hang" {
			if ex, ok := f.Extra.(string); ok {
				os.WriteFile(fmt.Sprintf("%s/hang-%d-%d.txt", os.Getenv("VERIF_OUT"), s.Shard, i), []byte(ex), 0o644)
			}
		}
		if f != nil && f.Class != "workload-hang" {
			// a panic inside the engine under concurrency: reported with its class (other properties own the semantics)
			s.Class("workload-failure:"+f.Class, 1)
		}
		if f != nil && (f.Class == "workload-hang" || f.Class == "hang") {
			s.Inconclusive(f.Msg)
			hangs++
			if hangs >= 2 {
				break // stuck goroutines stay behind; the reports collected so far are still evaluated below
			}
		}
	}
	// collect the race detector's reports written by this process
	files, _ := filepath.Glob(logPrefix + ".*")
	var text strings.Builder
	for _, fn := range files {
		b, _ := os.ReadFile(fn)
		text.Write(b)
	}
	reports, external := parseReports(text.String())
	s.Class("race-reports-in-repository", int64(len(reports)))
	s.Class("race-reports-outside-repository", int64(external))
	s.Class("race-reports-outside-data-path-packages", int64(offPath))
	s.Class("race-reports-caused-by-harness-code", int64(harnessReports))
	seen := map[string]raceReport{}
	for _, r := range reports {
		if _, ok := seen[r.pair]; !ok {
			seen[r.pair] = r
		}
	}
	var pairs []string
	for p := range seen {
		pairs = append(pairs, p)
	}
	sort.Strings(pairs)
	s.Notes[fmt.Sprintf("race_pairs_shard_%d", s.Shard)] = pairs
	for _, p := range pairs {
		r := seen[p]
		f := &vf.Failure{Class: "race:" + p, Msg: "data race between " + p + " (" + r.kinds + ")", Extra: r.sample}
		f.Extra = nil
		s.Report(map[string]any{"pair": p, "report": r.sample}, f)
	}
	finished = true
}

func TestReplay(t *testing.T) {
	s := vf.Open("C19")
	s.Rule, s.Assumptions = rule, assumptions
	defer func() { s.Flush(true) }()
	// committed cases are saved race reports; replay re-parses them (deterministic verdict of the parser)
	s.Replay(func(raw json.RawMessage) *vf.Failure {
		var c struct {
			Pair   string `json:"pair"`
			Report string `json:"report"`
		}
		if err := json.Unmarshal(raw, &c); err != nil {
			return vf.Failf("bad-case", "%v", err)
		}
		// a saved race report cannot be re-executed (the schedule is not reproducible); the committed reports
		// document fixed findings and guard the report parser: it must still reduce the report to the recorded pair
		reps, _ := parseReports("==================\n" + c.Report + "\n==================")
		for _, r := range reps {
			if r.pair == c.Pair {
				return nil
			}
		}
		if c.Pair != "" {
			return vf.Failf("parser-regression", "the saved report is no longer reduced to the pair %q", c.Pair)
		}
		return nil
	})
}
