// C20 — Recovery can be interrupted and repeated.
package c20

import (
	"encoding/json"
	"strings"
	"testing"

	"pgregory.net/rapid"

	"verifharness/crasheng"
	"verifharness/crashsim"
	"verifharness/vf"
)

type Case struct {
	H      crasheng.History `json:"history"`
	Points []int            `json:"points"` // crash points of the history, as per-mille positions in its I/O trace
	Depth  int              `json:"depth"`
	Tear   bool             `json:"tear_inner"`
	Repeat int              `json:"repeat"`
	// CommitTear: the crash points are taken among the log writes of commits, and that log write is torn one byte before its
	// end: the image holds all records of the committing transaction (e.g. its APPLYDELETE records) except the COMMIT record
	CommitTear bool `json:"commit_tear,omitempty"`
}

var profile = crasheng.Profile{AbortPct: 30, MaxTxns: 6, Checkpoint: 15, OpenTail: true, OpenMid: 15, PostCrash: 50}

const rule = "Case = generated C01/C02-style history x 2-4 crash points k of its I/O trace (crash images with losers / un-flushed committed work; in a third of the cases the points are log writes of commits torn just before their end, i.e. images that hold a committing transaction's records without its COMMIT record) x every prefix j of the recovery run's own recorded I/O trace (page writes of evictions and of the final flush, log truncation, re-seeded log records), optionally the log write torn, nested to depth 2 on a sample; plus plain repetition of recovery 2-5 times. Oracle: the committed-set oracle of the first crash point k (state(D) or state(D+U)) and the post-recovery DML smoke test. Non-trivial = a second crash strictly inside the recovery trace of an image whose log was non-empty."

var assumptions = []string{
	"prefix crash model at the DiskManager boundary, also for the recovery run (recorded through hook H1)",
	"torn page writes are excluded while the corresponding known finding is listed",
}

func explore(c *Case, noTornPage bool) (*vf.Failure, *crasheng.Stats) {
	st := &crasheng.Stats{Classes: map[string]bool{}}
	var out *vf.Failure
	g := vf.Guard(func() *vf.Failure {
		h := c.H
		h.NoTornPage = true
		run, f := crasheng.Execute(&h, st)
		defer run.Cleanup()
		if f != nil {
			out = f
			return nil
		}
		all := run.CrashPoints(0)
		var commitKs []int // prefixes that end with the log write of a commit (the next marker is a commit-return)
		if c.CommitTear {
			ev := run.Rec.Events
			for i := run.Start; i < run.End && i < len(ev); i++ {
				if ev[i].Kind == crashsim.EvLog && i+1 < len(ev) && ev[i+1].Kind == crashsim.EvMarker && strings.HasPrefix(ev[i+1].Label, "commit-return") && len(ev[i].Data) > 21 {
					commitKs = append(commitKs, i+1)
				}
			}
		}
		for _, pm := range c.Points {
			k := all[(pm*(len(all)-1))/1000]
			tear := crashsim.Tear{}
			if len(commitKs) > 0 {
				k = commitKs[(pm*(len(commitKs)-1))/1000]
				tear = crashsim.Tear{On: true, Bytes: len(run.Rec.Events[k-1].Data) - 1}
				st.Classes["first-crash-tears-the-commit-record"] = true
			}
			if v := run.ExploreRecoveryCrashes(k, tear, c.Depth, c.Tear, st); v != nil {
				v.F.Extra = map[string]any{"k": k, "extra": v.F.Extra}
				out = v.F
				return nil
			}
			if c.Repeat > 0 {
				if v := run.RepeatRecovery(k, tear, c.Repeat, st); v != nil {
					out = v.F
					return nil
				}
			}
		}
		return nil
	})
	if g != nil {
		g.Class = "harness-or-engine-" + g.Class
		return g, st
	}
	return out, st
}

func gen(t *rapid.T) *Case {
	c := &Case{H: *crasheng.GenHistory(t, profile)}
	c.H.Tear = false
	c.H.Growth = rapid.IntRange(0, 3).Draw(t, "growth") == 0
	n := rapid.IntRange(2, 4).Draw(t, "npoints")
	for i := 0; i < n; i++ {
		c.Points = append(c.Points, rapid.IntRange(0, 1000).Draw(t, "pm"))
	}
	c.Depth = rapid.SampledFrom([]int{1, 1, 2}).Draw(t, "depth")
	c.Tear = rapid.Bool().Draw(t, "tear")
	c.Repeat = rapid.SampledFrom([]int{0, 2, 3, 5}).Draw(t, "repeat")
	c.CommitTear = rapid.IntRange(0, 2).Draw(t, "committear") == 0
	return c
}

func TestSearch(t *testing.T) {
	s := vf.Open("C20")
	s.Rule, s.Assumptions = rule, assumptions
	defer func() { s.Flush(!t.Failed()) }()
	rapid.Check(t, func(rt *rapid.T) {
		c := gen(rt)
		f, st := explore(c, true)
		var cls []string
		if c.Depth > 1 {
			cls = append(cls, "nested-depth-2")
		}
		if c.Repeat > 0 {
			cls = append(cls, "repeated-recovery")
		}
		if c.Tear {
			cls = append(cls, "torn-log-write-in-recovery")
		}
		s.Count(c, st.NontrivPoints > 0, cls...)
		s.Class("recovery-crash-points", int64(st.CrashPoints))
		s.Judge(rt, c, f)
	})
}

func TestReplay(t *testing.T) {
	s := vf.Open("C20")
	s.Rule, s.Assumptions = rule, assumptions
	defer func() { s.Flush(true) }()
	s.Replay(func(raw json.RawMessage) *vf.Failure {
		var c Case
		if err := json.Unmarshal(raw, &c); err != nil {
			return vf.Failf("bad-case", "%v", err)
		}
		f, _ := explore(&c, true)
		return f
	})
}
