// C20 — Recovery can be interrupted and repeated.
package c20

import (
	"encoding/json"
	"testing"

	"pgregory.net/rapid"

	"verifharness/crasheng"
	"verifharness/crashsim"
	"verifharness/vf"
)

type Case struct {
	H      crasheng.History `json:"history"`
	Points []int            `json:"points"` // crash points of the history, as per-mille positions in its I/O trace
	Depth  int              `json:"depth"`
	Tear   bool             `json:"tear_inner"`
	Repeat int              `json:"repeat"`
}

var profile = crasheng.Profile{AbortPct: 30, MaxTxns: 6, Checkpoint: 15, OpenTail: true, OpenMid: 15, PostCrash: 50}

const rule = "Case = generated C01/C02-style history x 2-4 crash points k of its I/O trace (crash images with losers / un-flushed committed work) x every prefix j of the recovery run's own recorded I/O trace (page writes of evictions and of the final flush, log truncation, re-seeded log records), optionally the log write torn, nested to depth 2 on a sample; plus plain repetition of recovery 2-5 times. Oracle: the committed-set oracle of the first crash point k (state(D) or state(D+U)) and the post-recovery DML smoke test. Non-trivial = a second crash strictly inside the recovery trace of an image whose log was non-empty."

var assumptions = []string{
	"prefix crash model at the DiskManager boundary, also for the recovery run (recorded through hook H1)",
	"torn page writes are excluded while the corresponding known finding is listed",
}

func explore(c *Case, noTornPage bool) (*vf.Failure, *crasheng.Stats) {
	st := &crasheng.Stats{Classes: map[string]bool{}}
	var out *vf.Failure
	g := vf.Guard(func() *vf.Failure {
		h := c.H
		h.NoTornPage = true
		run, f := crasheng.Execute(&h, st)
		defer run.Cleanup()
		if f != nil {
			out = f
			return nil
		}
		all := run.CrashPoints(0)
		for _, pm := range c.Points {
			k := all[(pm*(len(all)-1))/1000]
			if v := run.ExploreRecoveryCrashes(k, crashsim.Tear{}, c.Depth, c.Tear, st); v != nil {
				v.F.Extra = map[string]any{"k": k, "extra": v.F.Extra}
				out = v.F
				return nil
			}
			if c.Repeat > 0 {
				if v := run.RepeatRecovery(k, crashsim.Tear{}, c.Repeat, st); v != nil {
					out = v.F
					return nil
				}
			}
		}
		return nil
	})
	if g != nil {
		g.Class = "harness-or-engine-" + g.Class
		return g, st
	}
	return out, st
}

func gen(t *rapid.T) *Case {
	c := &Case{H: *crasheng.GenHistory(t, profile)}
	c.H.Tear = false
	c.H.Growth = rapid.IntRange(0, 3).Draw(t, "growth") == 0
	n := rapid.IntRange(2, 4).Draw(t, "npoints")
	for i := 0; i < n; i++ {
		c.Points = append(c.Points, rapid.IntRange(0, 1000).Draw(t, "pm"))
	}
	c.Depth = rapid.SampledFrom([]int{1, 1, 2}).Draw(t, "depth")
	c.Tear = rapid.Bool().Draw(t, "tear")
	c.Repeat = rapid.SampledFrom([]int{0, 2, 3, 5}).Draw(t, "repeat")
	return c
}

func TestSearch(t *testing.T) {
	s := vf.Open("C20")
	s.Rule, s.Assumptions = rule, assumptions
	defer func() { s.Flush(!t.Failed()) }()
	rapid.Check(t, func(rt *rapid.T) {
		c := gen(rt)
		f, st := explore(c, true)
		var cls []string
		if c.Depth > 1 {
			cls = append(cls, "nested-depth-2")
		}
		if c.Repeat > 0 {
			cls = append(cls, "repeated-recovery")
		}
		if c.Tear {
			cls = append(cls, "torn-log-write-in-recovery")
		}
		s.Count(c, st.NontrivPoints > 0, cls...)
		s.Class("recovery-crash-points", int64(st.CrashPoints))
		s.Judge(rt, c, f)
	})
}

func TestReplay(t *testing.T) {
	s := vf.Open("C20")
	s.Rule, s.Assumptions = rule, assumptions
	defer func() { s.Flush(true) }()
	s.Replay(func(raw json.RawMessage) *vf.Failure {
		var c Case
		if err := json.Unmarshal(raw, &c); err != nil {
			return vf.Failf("bad-case", "%v", err)
		}
		f, _ := explore(&c, true)
		return f
	})
}
