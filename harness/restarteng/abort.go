package restarteng

import (
	"fmt"
	"github.com/ryogrid/SamehadaDB/lib/storage/access"
	"github.com/ryogrid/SamehadaDB/lib/storage/tuple"
	"github.com/ryogrid/SamehadaDB/lib/types"
	"strings"
	"time"

	"pgregory.net/rapid"

	"verifharness/dbh"
	"verifharness/vf"
)

// AbortCase: committed setup, a victim transaction that is aborted (explicitly or by a lock conflict
// with a reader), follow-up committed work that reuses the freed space.
type AbortCase struct {
	KB       int            `json:"kb"`
	File     bool           `json:"file"`
	Defs     []dbh.TableDef `json:"defs"`
	Setup    []dbh.Stmt     `json:"setup"`
	Victim   []dbh.Stmt     `json:"victim"`
	Conflict bool           `json:"conflict"` // a second transaction read-locks every row before the victim's last statement
	Follow   []dbh.Stmt     `json:"follow"`
	// Pad: rows of ~900 bytes in an extra table; the table is scanned after every statement of the victim, after the abort
	// and before every check, so that with a small pool the pages the victim (and its rollback) changed are evicted and
	// read back in between
	Pad int `json:"pad,omitempty"`
	// Tight > 0: an extra table whose first heap page is filled so that exactly Tight-1 bytes stay free; the victim then
	// first shortens the row stored last on that page and inserts TightIns small rows (which take the freed bytes and new
	// slot entries) before its own statements: rolling all that back needs every byte of the page again
	// Others: INSERT statements of other transactions that run and commit while the victim is open (Others[i] after the
	// victim's statement number After[i]): the victim's rows are then not the last ones stored on their pages when it is rolled back
	Others   []dbh.Stmt `json:"others,omitempty"`
	After    []int      `json:"after,omitempty"`
	Tight    int        `json:"tight,omitempty"`
	TightIns int        `json:"tight_ins,omitempty"`
}

type AbortStats struct {
	VictimWrites int
	Relocation   bool
	SameRowTwice bool
	ConflictHit  bool
	Classes      map[string]bool
}

func RunAbort(c *AbortCase, st *AbortStats) *vf.Failure {
	f, _ := vf.WithTimeout(120*time.Second, func() *vf.Failure { return runAbort(c, st) })
	return f
}

func runAbort(c *AbortCase, st *AbortStats) *vf.Failure {
	dbh.NoBackground(true)
	var db *dbh.DB
	if c.File {
		dir := dbh.TempDir("abort")
		defer removeAll(dir)
		db = dbh.Open(dir+"/db", c.KB, true)
	} else {
		db = dbh.Open("c03", c.KB, false)
	}
	defer func() { func() { defer func() { recover() }(); db.Stop() }() }()
	m := dbh.NewMDB()
	var defs []*dbh.TableDef
	for i := range c.Defs {
		if err := db.CreateTable(&c.Defs[i]); err != nil {
			return vf.Failf("create-error", "%v", err)
		}
		m.Create(&c.Defs[i])
		defs = append(defs, &c.Defs[i])
		st.Classes["kind:"+kindClass(&c.Defs[i])] = true
	}
	pressure := func() {}
	if c.Pad > 0 {
		pad := &dbh.TableDef{Name: "padtbl", Cols: []dbh.Col{{Name: "id", T: "i", Idx: dbh.IdxNone}, {Name: "s", T: "s", Idx: dbh.IdxNone}}}
		if err := db.CreateTable(pad); err != nil {
			return vf.Failf("create-error", "%v", err)
		}
		for i := 0; i < c.Pad; i += 10 {
			ins := &dbh.Stmt{Kind: "insert", Table: "padtbl", Cols: []string{"id", "s"}}
			for j := i; j < i+10 && j < c.Pad; j++ {
				ins.Rows = append(ins.Rows, dbh.Row{dbh.IntV(int32(j)), dbh.StrV(strings.Repeat("p", 900))})
			}
			if _, err := db.Auto(ins); err != nil {
				return vf.Failf("setup-error", "pad rows: %v", err)
			}
		}
		pressure = func() { db.ScanAll("padtbl") }
		st.Classes["buffer-pressure"] = true
	}
	ambiguous := func(s *dbh.Stmt, base *dbh.MDB) bool {
		if s.Kind == "insert" {
			return false
		}
		a, b := base.Clone(), base.Clone()
		a.Apply(s, dbh.EvalMode{NullNE: true})
		b.Apply(s, dbh.EvalMode{NullNE: false})
		return dbh.MultisetDiff(a.Tables[s.Table].Rows, b.Tables[s.Table].Rows) != ""
	}
	for i := range c.Setup {
		s := &c.Setup[i]
		if ambiguous(s, m) {
			continue
		}
		if _, err := db.Auto(s); err != nil {
			return vf.Failf("setup-error", "setup %s: %v", s, err)
		}
		m.Apply(s, dbh.EvalMode{})
	}
	var tightStmts []dbh.Stmt
	if c.Tight > 0 {
		td := &dbh.TableDef{Name: "tight", Cols: []dbh.Col{{Name: "id", T: "i", Idx: dbh.IdxNone}, {Name: "s", T: "s", Idx: dbh.IdxNone}}}
		if err := db.CreateTable(td); err != nil {
			return vf.Failf("create-error", "%v", err)
		}
		m.Create(td)
		defs = append(defs, td)
		tm := db.Cat().GetTableByName("tight")
		free := func() int { // bytes left on the first heap page: free space pointer - header - slot array
			pg := access.CastPageAsTablePage(db.BPM().FetchPage(tm.Table().GetFirstPageID()))
			n := int(pg.GetFreeSpacePointer()) - 24 - 8*int(pg.GetTupleCount())
			db.BPM().UnpinPage(pg.GetPageID(), false)
			return n
		}
		size := func(l int) int {
			return int(tuple.NewTupleFromSchema([]types.Value{types.NewInteger(1), types.NewVarchar(strings.Repeat("t", l))}, tm.Schema()).Size())
		}
		ins := func(id int32, l int) *vf.Failure {
			st := &dbh.Stmt{Kind: "insert", Table: "tight", Cols: []string{"id", "s"}, Rows: []dbh.Row{{dbh.IntV(id), dbh.StrV(strings.Repeat("t", l))}}}
			if _, err := db.Auto(st); err != nil {
				return vf.Failf("setup-error", "tight rows: %v", err)
			}
			m.Apply(st, dbh.EvalMode{})
			return nil
		}
		id := int32(0)
		for free() > 700 {
			if f := ins(id, 300); f != nil {
				return f
			}
			id++
		}
		l := free() - 8 - (c.Tight - 1) - size(0)
		if l > 250 {
			if f := ins(id, l); f != nil {
				return f
			}
			if free() == c.Tight-1 {
				st.Classes["page-filled-to-the-byte"] = true
				tightStmts = append(tightStmts, dbh.Stmt{Kind: "update", Table: "tight", Set: []dbh.SetItem{{Col: "s", V: dbh.StrV(strings.Repeat("u", l-200))}}, Where: dbh.Or(dbh.Leaf("id", "=", dbh.IntV(id)), dbh.Leaf("id", "=", dbh.IntV(7777777)))})
				for i := 0; i < c.TightIns; i++ {
					tightStmts = append(tightStmts, dbh.Stmt{Kind: "insert", Table: "tight", Cols: []string{"id", "s"}, Rows: []dbh.Row{{dbh.IntV(int32(5000 + i)), dbh.StrV("tiny")}}})
				}
			}
		}
	}
	if f := Battery(db, m, defs, "before the victim transaction", false); f != nil {
		f.Class = "pre-" + f.Class
		return f
	}
	// a reader that share-locks the rows the victim's last statement selects (conflict abort)
	var blocker *dbh.Txn
	if c.Conflict && len(c.Victim) > 0 {
		last := &c.Victim[len(c.Victim)-1]
		if last.Kind == "update" || last.Kind == "delete" {
			blocker = db.Begin()
			blocker.Exec(&dbh.Stmt{Kind: "select", Table: last.Table, Where: last.Where})
		}
	}
	// victim
	t := db.Begin()
	work := m.Clone()
	touched := map[string]int{}
	victim := append(append([]dbh.Stmt{}, tightStmts...), c.Victim...)
	for i := range victim {
		s := &victim[i]
		if ambiguous(s, work) {
			continue
		}
		before := rowKeys(work, s.Table)
		_, err := t.Exec(s)
		pressure()
		if t.Done {
			st.ConflictHit = true
			st.Classes["aborted-by-conflict"] = true
			break
		}
		if err != nil {
			continue
		}
		n := work.Apply(s, dbh.EvalMode{})
		if n > 0 {
			st.VictimWrites++
		}
		for oi := range c.Others {
			if oi < len(c.After) && c.After[oi] == i-len(tightStmts) {
				// another transaction inserts into the same tables and commits while the victim is open
				if _, err := db.Auto(&c.Others[oi]); err == nil {
					m.Apply(&c.Others[oi], dbh.EvalMode{})
					work.Apply(&c.Others[oi], dbh.EvalMode{})
					st.Classes["other-transaction-commits-inserts-meanwhile"] = true
				}
			}
		}
		for _, k := range changed(before, work, s.Table) {
			touched[k]++
			if touched[k] > 1 {
				st.SameRowTwice = true
				st.Classes["same-row-changed-repeatedly"] = true
			}
		}
		if s.Kind == "update" {
			for _, it := range s.Set {
				if len(it.V.S) > 100 {
					st.Relocation = true
					st.Classes["growing-update"] = true
				}
			}
		}
	}
	if !t.Done {
		t.Abort()
	}
	if blocker != nil && !blocker.Done {
		blocker.Commit()
	}
	pressure()
	if f := Battery(db, m, defs, "after the abort", false); f != nil {
		f.Class = "after-abort:" + f.Class
		return f
	}
	if c.Pad > 0 {
		pressure()
		if f := Battery(db, m, defs, "after the abort and eviction of the rolled-back pages", false); f != nil {
			f.Class = "after-abort:" + f.Class
			return f
		}
	}
	// later transactions reuse the space without disturbing other rows
	for i := range c.Follow {
		s := &c.Follow[i]
		if ambiguous(s, m) {
			continue
		}
		if _, err := db.Auto(s); err != nil {
			return vf.Failf("after-abort:dml-error", "follow-up %s failed: %v", s, err)
		}
		m.Apply(s, dbh.EvalMode{})
	}
	if f := Battery(db, m, defs, "after follow-up transactions", false); f != nil {
		f.Class = "after-followup:" + f.Class
		return f
	}
	return nil
}

func zero(c dbh.Col) dbh.Val {
	switch c.T {
	case "i":
		return dbh.IntV(0)
	case "f":
		return dbh.FloatV(0)
	}
	return dbh.StrV("")
}

func rowKeys(m *dbh.MDB, table string) map[string]int {
	out := map[string]int{}
	for _, r := range m.Tables[table].Rows {
		out[r.Key()]++
	}
	return out
}

// changed returns the keys of rows that exist after but not before (new versions of touched rows).
func changed(before map[string]int, m *dbh.MDB, table string) []string {
	var out []string
	after := rowKeys(m, table)
	for k, n := range after {
		if before[k] < n {
			out = append(out, fmt.Sprintf("%s/%v", table, k[:min(len(k), 12)]))
		}
	}
	return out
}

func min(a, b int) int {
	if a < b {
		return a
	}
	return b
}

// GenAbort draws an abort case.
func GenAbort(t *rapid.T, o GenOpts) *AbortCase {
	c := &AbortCase{File: rapid.IntRange(0, 3).Draw(t, "file") == 0, Conflict: rapid.IntRange(0, 2).Draw(t, "conflict") == 0}
	g := &gstate{ids: map[string][]int32{}}
	nt := rapid.IntRange(1, 2).Draw(t, "ntables")
	nIdx, nBtree := 0, 0
	for i := 0; i < nt; i++ {
		def := genTable(t, fmt.Sprintf("t%d", i), o)
		g.defs = append(g.defs, def)
		c.Defs = append(c.Defs, *def)
		for _, cl := range def.Cols {
			switch cl.Idx {
			case dbh.IdxSkip, dbh.IdxUniqSkip:
				nIdx++
			case dbh.IdxBtree:
				nBtree++
			}
		}
	}
	for i := range c.Defs {
		g.defs[i] = &c.Defs[i]
	}
	gen := func(n int, l string) []dbh.Stmt {
		var out []dbh.Stmt
		k := rapid.IntRange(0, n).Draw(t, l)
		for i := 0; i < k; i++ {
			def := g.defs[rapid.IntRange(0, len(g.defs)-1).Draw(t, "tbl")]
			if s := genDML(t, g, def, o); s != nil {
				out = append(out, *s)
			}
		}
		return out
	}
	c.Setup = gen(14, "nsetup")
	saved := map[string][]int32{}
	for k, v := range g.ids {
		saved[k] = append([]int32{}, v...)
	}
	c.Victim = gen(10, "nvictim")
	if len(c.Victim) == 0 {
		def := g.defs[0]
		if s := genDML(t, g, def, o); s != nil {
			c.Victim = append(c.Victim, *s)
		}
	}
	g.ids = saved // the victim's inserts / deletes are rolled back
	if rapid.IntRange(0, 2).Draw(t, "others") == 0 {
		g.insertOnly = true
		no := rapid.IntRange(1, 3).Draw(t, "nothers")
		for i := 0; i < no; i++ {
			def := g.defs[rapid.IntRange(0, len(g.defs)-1).Draw(t, "otbl")]
			if s := genDML(t, g, def, o); s != nil {
				c.Others = append(c.Others, *s)
				c.After = append(c.After, rapid.IntRange(0, len(c.Victim)-1).Draw(t, "oafter"))
			}
		}
		g.insertOnly = false
	}
	c.Follow = gen(4, "nfollow")
	frames := 3*nIdx + 8*nBtree + 12 + rapid.SampledFrom([]int{0, 6, 40}).Draw(t, "spare")
	c.KB = frames * 4
	c.Pad = rapid.SampledFrom([]int{0, 0, 60, 120}).Draw(t, "pad")
	if rapid.IntRange(0, 5).Draw(t, "tight") == 0 {
		c.Tight = 1 + rapid.SampledFrom([]int{0, 4, 12, 30, 60}).Draw(t, "tightfree")
		c.TightIns = rapid.IntRange(0, 6).Draw(t, "tightins")
	}
	return c
}
