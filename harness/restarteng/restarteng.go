// Package restarteng is the DDL/DML/restart state machine shared by C09 (clean shutdown and reopen
// change nothing observable) and C10 (tables keep identity, schema and data across restarts).
package restarteng

import (
	"encoding/binary"

	"fmt"
	"github.com/spaolacci/murmur3"
	"os"
	"strings"
	"time"

	"pgregory.net/rapid"

	"verifharness/dbh"
	"verifharness/sqlgen"
	"verifharness/vf"
)

type Op struct {
	K     string        `json:"k"` // create | dml | restart | crash | abort-txn
	Def   *dbh.TableDef `json:"def,omitempty"`
	Stmt  *dbh.Stmt     `json:"stmt,omitempty"`
	Stmts []dbh.Stmt    `json:"stmts,omitempty"` // abort-txn: statements of a transaction that is rolled back
	Check bool          `json:"check,omitempty"` // run the query battery right after this op (always after restarts)
}

type Case struct {
	KB  int  `json:"kb"`
	Ops []Op `json:"ops"`
}

type Stats struct {
	Restarts     int
	Crashes      int
	WorkAfter    bool
	TablesAtRest int // max number of user tables with rows and an index at a restart
	CreatedAfter bool
	Classes      map[string]bool
}

// special: tables whose column 0 carries a unique-skip-list / B-tree / hash index
// hashEndKeys are integer keys whose entries the linear-probe hash index places in the last slot of a block page
// (slot = murmur3(key bytes) % 252): every probe for such a key runs on into the next block page.
var hashEndKeys = func() []int32 {
	var out []int32
	for k := int32(1); k < 400000 && len(out) < 16; k++ {
		b := []byte{0, byte(k), byte(k >> 8), byte(k >> 16), byte(k >> 24)}
		h := murmur3.New128()
		h.Write(b)
		v := binary.LittleEndian.Uint64(h.Sum(nil))
		if v%252 == 251 {
			out = append(out, k)
		}
	}
	return out
}()

func special(def *dbh.TableDef) string {
	k := def.Cols[0].Idx
	if k == dbh.IdxUniqSkip || k == dbh.IdxBtree || k == dbh.IdxHash {
		return k
	}
	return ""
}

func ordered(kind string) bool {
	return kind == dbh.IdxSkip || kind == dbh.IdxUniqSkip || kind == dbh.IdxBtree
}

// Battery compares every access path of every table with the model.
func Battery(db *dbh.DB, m *dbh.MDB, defs []*dbh.TableDef, when string, identity bool) *vf.Failure {
	for _, def := range defs {
		mt := m.Tables[def.Name]
		tm := db.Cat().GetTableByName(def.Name)
		if tm == nil {
			return vf.Failf("table-missing", "%s: table %s is not reachable under its name", when, def.Name)
		}
		// schema: column count, order, types
		sc := tm.Schema()
		if int(sc.GetColumnCount()) != len(def.Cols) {
			return vf.Failf("schema-changed", "%s: table %s has %d columns, created with %d", when, def.Name, sc.GetColumnCount(), len(def.Cols))
		}
		for i, c := range def.Cols {
			col := sc.GetColumn(uint32(i))
			// the catalog folds table names to lower case (names are case-insensitive), column names are generated in lower case
			if col.GetColumnName() != strings.ToLower(def.Name)+"."+c.Name || dbh.TypeByte(col.GetType()) != c.TB() {
				return vf.Failf("schema-changed", "%s: table %s column %d is %s type %v, created as %s type %s", when, def.Name, i, col.GetColumnName(), col.GetType(), c.Name, c.T)
			}
		}
		rows, err := db.ScanAll(def.Name)
		if err != nil {
			return vf.Failf("scan-error", "%s: scan of %s: %v", when, def.Name, err)
		}
		if d := dbh.MultisetDiff(rows, mt.Rows); d != "" {
			return vf.Failf("rows-differ:scan", "%s: table %s (sequential scan): %s", when, def.Name, d)
		}
		sqlOK := special(def) == "" // SQL front end documented for skip-list / no index only
		for ci, c := range def.Cols {
			if c.Idx == dbh.IdxNone || c.Idx == "" {
				continue
			}
			// keys: one existing, one absent, bounds for ranges
			var have []dbh.Val
			for _, r := range mt.Rows {
				if !r[ci].Null {
					have = append(have, r[ci])
				}
			}
			probes := []dbh.Val{}
			if len(have) > 0 {
				probes = append(probes, have[0], have[len(have)/2])
			}
			switch c.T {
			case "i":
				probes = append(probes, dbh.IntV(987654))
			case "f":
				probes = append(probes, dbh.FloatV(98765.5))
			default:
				probes = append(probes, dbh.StrV("zzzabsent"))
			}
			// keys that rows deleted or re-keyed earlier in the history carried: the index must not return those rows any more
			probes = append(probes, m.Gone[def.Name+"."+c.Name]...)
			for _, key := range probes {
				want := m.Select(&dbh.Stmt{Kind: "select", Table: def.Name, Where: dbh.Leaf(c.Name, "=", key)}, dbh.EvalMode{})
				got, err := db.PointScan(def.Name, ci, key)
				if err != nil {
					return vf.Failf("index-error:"+c.Idx, "%s: point scan %s.%s = %s (%s index): %v", when, def.Name, c.Name, key, c.Idx, err)
				}
				if d := dbh.MultisetDiff(got, want); d != "" {
					return vf.Failf("rows-differ:index-point:"+c.Idx, "%s: %s.%s = %s through the %s index: %s", when, def.Name, c.Name, key, c.Idx, d)
				}
				if sqlOK {
					if _, ok := key.SQLLiteral(); ok {
						q := &dbh.Stmt{Kind: "select", Table: def.Name, Where: dbh.Leaf(c.Name, "=", key)}
						got, err := db.FrontDoor(q.SQL(false))
						if err != nil {
							return vf.Failf("sql-error", "%s: %s: %v", when, q, err)
						}
						if d := dbh.MultisetDiff(got, want); d != "" {
							return vf.Failf("rows-differ:sql-optimizer-path", "%s: %s: %s", when, q, d)
						}
					}
				}
			}
			if ordered(c.Idx) && len(have) > 0 {
				lo, hi := have[0], have[0]
				for _, v := range have {
					if dbh.Compare3(v, lo) < 0 {
						lo = v
					}
					if dbh.Compare3(v, hi) > 0 {
						hi = v
					}
				}
				mid := have[len(have)/2]
				type rg struct{ lo, hi *dbh.Val }
				for _, r := range []rg{{&lo, &mid}, {nil, &mid}, {&mid, nil}, {nil, nil}} {
					var p *dbh.Pred
					if r.lo != nil {
						p = dbh.Leaf(c.Name, ">=", *r.lo)
					}
					if r.hi != nil {
						q := dbh.Leaf(c.Name, "<=", *r.hi)
						if p == nil {
							p = q
						} else {
							p = dbh.And(p, q)
						}
					}
					var want []dbh.Row
					for _, row := range mt.Rows { // an index range scan never returns rows whose key is NULL
						if row[ci].Null {
							continue
						}
						if p == nil || p.Eval(func(string) dbh.Val { return row[ci] }, dbh.EvalMode{}) {
							want = append(want, row)
						}
					}
					got, err := db.RangeScan(def.Name, ci, r.lo, r.hi)
					if err != nil {
						return vf.Failf("index-error:"+c.Idx, "%s: range scan on %s.%s (%s index): %v", when, def.Name, c.Name, c.Idx, err)
					}
					if d := dbh.MultisetDiff(got, want); d != "" {
						return vf.Failf("rows-differ:index-range:"+c.Idx, "%s: range [%v,%v] on %s.%s through the %s index: %s", when, strp(r.lo), strp(r.hi), def.Name, c.Name, c.Idx, d)
					}
				}
			}
		}
	}
	if identity {
		// distinct tables have distinct ids and disjoint heap page chains
		ids := map[uint32]string{}
		firsts := map[int32]string{}
		for _, def := range defs {
			tm := db.Cat().GetTableByName(def.Name)
			if o, dup := ids[tm.OID()]; dup {
				return vf.Failf("shared-identifier", "%s: tables %s and %s share the table id %d", when, o, def.Name, tm.OID())
			}
			ids[tm.OID()] = def.Name
			fp := int32(tm.Table().GetFirstPageID())
			if o, dup := firsts[fp]; dup {
				return vf.Failf("shared-storage", "%s: tables %s and %s share the first heap page %d", when, o, def.Name, fp)
			}
			firsts[fp] = def.Name
		}
	}
	return nil
}

func strp(v *dbh.Val) string {
	if v == nil {
		return "-"
	}
	return v.String()
}

// Run executes the case; identity selects C10's extra assertions; crashOK allows "crash" ops (stop without flush).
func Run(c *Case, identity bool, st *Stats) *vf.Failure {
	f, _ := vf.WithTimeout(120*time.Second, func() *vf.Failure { return run(c, identity, st) })
	return f
}

func run(c *Case, identity bool, st *Stats) *vf.Failure {
	dbh.NoBackground(true)
	dir := dbh.TempDir("restart")
	defer os.RemoveAll(dir)
	db := dbh.Open(dir+"/db", c.KB, true)
	stopped := false
	defer func() {
		if !stopped {
			func() { defer func() { recover() }(); db.Stop() }()
		}
	}()
	m := dbh.NewMDB()
	var defs []*dbh.TableDef
	churnNext := 0
	for oi := range c.Ops {
		op := &c.Ops[oi]
		when := fmt.Sprintf("op %d (%s)", oi, op.K)
		switch op.K {
		case "create":
			if err := db.CreateTable(op.Def); err != nil {
				return vf.Failf("create-error", "%s: %v", when, err)
			}
			m.Create(op.Def)
			defs = append(defs, op.Def)
			if st.Restarts+st.Crashes > 0 {
				st.CreatedAfter = true
			}
			st.Classes["kind:"+kindClass(op.Def)] = true
		case "dml":
			if op.Stmt.Kind != "insert" {
				a, b := m.Clone(), m.Clone()
				a.Apply(op.Stmt, dbh.EvalMode{NullNE: true})
				b.Apply(op.Stmt, dbh.EvalMode{NullNE: false})
				if dbh.MultisetDiff(a.Tables[op.Stmt.Table].Rows, b.Tables[op.Stmt.Table].Rows) != "" {
					st.Classes["dml-skipped-null-ne-ambiguity"] = true
					continue // "<NULL column> <> constant": the outcome is not fixed by the property; not executed
				}
			}
			if _, err := db.Auto(op.Stmt); err != nil {
				return vf.Failf("dml-error", "%s %s: %v", when, op.Stmt, err)
			}
			m.Apply(op.Stmt, dbh.EvalMode{})
			if st.Restarts+st.Crashes > 0 {
				st.WorkAfter = true
			}
		case "abort-txn":
			t := db.Begin()
			work := m.Clone()
			for si := range op.Stmts {
				s := &op.Stmts[si]
				if s.Kind != "insert" {
					a, b := work.Clone(), work.Clone()
					a.Apply(s, dbh.EvalMode{NullNE: true})
					b.Apply(s, dbh.EvalMode{NullNE: false})
					if dbh.MultisetDiff(a.Tables[s.Table].Rows, b.Tables[s.Table].Rows) != "" {
						continue
					}
				}
				if _, err := t.Exec(s); err == nil && !t.Done {
					work.Apply(s, dbh.EvalMode{})
				}
				if t.Done {
					break
				}
			}
			if !t.Done {
				t.Abort()
			}
			st.Classes["aborted-transaction"] = true
		case "bigjoin":
			// a hash join whose build side needs several temporary pages: these pages are allocated and deallocated
			// without ever reaching the db file (their ids live on in the log's deallocation records)
			if _, ok := m.Tables["ja"]; !ok {
				for _, hd := range []*dbh.TableDef{
					{Name: "ja", Cols: []dbh.Col{{Name: "k", T: "i", Idx: dbh.IdxNone}, {Name: "w", T: "s", Idx: dbh.IdxNone}}},
					{Name: "jb", Cols: []dbh.Col{{Name: "k", T: "i", Idx: dbh.IdxNone}, {Name: "v", T: "i", Idx: dbh.IdxNone}}}} {
					if err := db.CreateTable(hd); err != nil {
						return vf.Failf("create-error", "%s %s: %v", when, hd.Name, err)
					}
					m.Create(hd)
					defs = append(defs, hd)
				}
				for b := 0; b < 400; b += 40 {
					ins := &dbh.Stmt{Kind: "insert", Table: "ja", Cols: []string{"k", "w"}}
					for i := b; i < b+40; i++ {
						ins.Rows = append(ins.Rows, dbh.Row{dbh.IntV(int32(i)), dbh.StrV(strings.Repeat("j", 80))})
					}
					if _, err := db.Auto(ins); err != nil {
						return vf.Failf("dml-error", "%s %s: %v", when, "insert into ja", err)
					}
					m.Apply(ins, dbh.EvalMode{})
				}
				for b := 0; b < 400; b += 40 { // both sides are large: whichever side the optimizer builds the hash table from spills over several temporary pages
					ins := &dbh.Stmt{Kind: "insert", Table: "jb", Cols: []string{"k", "v"}}
					for i := b; i < b+40; i++ {
						ins.Rows = append(ins.Rows, dbh.Row{dbh.IntV(int32(i)), dbh.IntV(int32(100 + i))})
					}
					if _, err := db.Auto(ins); err != nil {
						return vf.Failf("dml-error", "%s %s: %v", when, "insert into jb", err)
					}
					m.Apply(ins, dbh.EvalMode{})
				}
			}
			rows, err := db.FrontDoor("SELECT ja.k, jb.v FROM ja, jb WHERE ja.k = jb.k;")
			if err != nil {
				return vf.Failf("join-error", "%s: join of the helper tables: %v", when, err)
			}
			if len(rows) != 400 {
				return vf.Failf("join-rows", "%s: join of the helper tables returned %d rows, 400 expected", when, len(rows))
			}
			st.Classes["hash-join-with-temporary-pages"] = true
		case "churn":
			// first time: 480 rows into a helper table with two skip-list indexes, then 320 of them deleted (index nodes run empty
			// and are deallocated: reusable page ids); later times: 200 more rows (pages are allocated again)
			if _, ok := m.Tables["ch"]; !ok {
				hd := &dbh.TableDef{Name: "ch", Cols: []dbh.Col{{Name: "id", T: "i", Idx: dbh.IdxSkip}, {Name: "v", T: "i", Idx: dbh.IdxSkip}}}
				if err := db.CreateTable(hd); err != nil {
					return vf.Failf("create-error", "%s %s: %v", when, hd.Name, err)
				}
				m.Create(hd)
				defs = append(defs, hd)
				for b := 0; b < 480; b += 40 {
					ins := &dbh.Stmt{Kind: "insert", Table: "ch", Cols: []string{"id", "v"}}
					for i := b; i < b+40; i++ {
						ins.Rows = append(ins.Rows, dbh.Row{dbh.IntV(int32(i)), dbh.IntV(int32(100000 + i))})
					}
					if _, err := db.Auto(ins); err != nil {
						return vf.Failf("dml-error", "%s %s: %v", when, "insert into ch", err)
					}
					m.Apply(ins, dbh.EvalMode{})
				}
				del := &dbh.Stmt{Kind: "delete", Table: "ch", Where: dbh.And(dbh.Leaf("id", ">=", dbh.IntV(160)), dbh.Leaf("id", "<=", dbh.IntV(479)))}
				if _, err := db.Auto(del); err != nil {
					return vf.Failf("dml-error", "%s %s: %v", when, del, err)
				}
				m.Apply(del, dbh.EvalMode{})
				churnNext = 1000
			} else {
				for b := 0; b < 200; b += 40 {
					ins := &dbh.Stmt{Kind: "insert", Table: "ch", Cols: []string{"id", "v"}}
					for i := b; i < b+40; i++ {
						ins.Rows = append(ins.Rows, dbh.Row{dbh.IntV(int32(churnNext + i)), dbh.IntV(int32(200000 + churnNext + i))})
					}
					if _, err := db.Auto(ins); err != nil {
						return vf.Failf("dml-error", "%s %s: %v", when, "insert into ch", err)
					}
					m.Apply(ins, dbh.EvalMode{})
				}
				churnNext += 200
			}
			st.Classes["index-nodes-emptied-and-page-ids-recycled"] = true
		case "emptyfirst":
			// a helper table of several heap pages whose oldest rows are deleted: the first heap page holds no live row any more
			if _, ok := m.Tables["ef"]; !ok {
				hd := &dbh.TableDef{Name: "ef", Cols: []dbh.Col{{Name: "id", T: "i", Idx: dbh.IdxSkip}, {Name: "s", T: "s", Idx: dbh.IdxNone}}}
				if err := db.CreateTable(hd); err != nil {
					return vf.Failf("create-error", "%s %s: %v", when, hd.Name, err)
				}
				m.Create(hd)
				defs = append(defs, hd)
				for b := 0; b < 160; b += 40 {
					ins := &dbh.Stmt{Kind: "insert", Table: "ef", Cols: []string{"id", "s"}}
					for i := b; i < b+40; i++ {
						ins.Rows = append(ins.Rows, dbh.Row{dbh.IntV(int32(i)), dbh.StrV(strings.Repeat("e", 90))})
					}
					if _, err := db.Auto(ins); err != nil {
						return vf.Failf("dml-error", "%s %s: %v", when, "insert into ef", err)
					}
					m.Apply(ins, dbh.EvalMode{})
				}
				del := &dbh.Stmt{Kind: "delete", Table: "ef", Where: dbh.Leaf("id", "<", dbh.IntV(70))}
				if _, err := db.Auto(del); err != nil {
					return vf.Failf("dml-error", "%s %s: %v", when, del, err)
				}
				m.Apply(del, dbh.EvalMode{})
				st.Classes["first-heap-page-emptied"] = true
			}
		case "biglog":
			// one session writes more log (about 600 KB) than the log buffer / recovery read buffer (516 KB) holds
			if _, ok := m.Tables["bl"]; !ok {
				hd := &dbh.TableDef{Name: "bl", Cols: []dbh.Col{{Name: "id", T: "i", Idx: dbh.IdxNone}, {Name: "s", T: "s", Idx: dbh.IdxNone}}}
				if err := db.CreateTable(hd); err != nil {
					return vf.Failf("create-error", "%s %s: %v", when, hd.Name, err)
				}
				m.Create(hd)
				defs = append(defs, hd)
			}
			base := len(m.Tables["bl"].Rows)
			for b := 0; b < 180; b += 20 {
				ins := &dbh.Stmt{Kind: "insert", Table: "bl", Cols: []string{"id", "s"}}
				for i := b; i < b+20; i++ {
					ins.Rows = append(ins.Rows, dbh.Row{dbh.IntV(int32(base + i)), dbh.StrV(strings.Repeat("L", 3300))})
				}
				if _, err := db.Auto(ins); err != nil {
					return vf.Failf("dml-error", "%s %s: %v", when, "insert into bl", err)
				}
				m.Apply(ins, dbh.EvalMode{})
			}
			st.Classes["session-with-log-larger-than-the-log-buffer"] = true
		case "restart", "crash":
			n := 0
			for _, d := range defs {
				if len(m.Tables[d.Name].Rows) > 0 {
					n++
				}
			}
			if n > st.TablesAtRest {
				st.TablesAtRest = n
			}
			if op.K == "restart" {
				// the property is about what the reopened database answers; compare before the shutdown too
				if f := Battery(db, m, defs, when+" before shutdown", identity); f != nil {
					return f
				}
				db.Shutdown()
				st.Restarts++
			} else {
				db.Stop()
				st.Crashes++
			}
			stopped = true
			var ndb *dbh.DB
			f, hung := vf.WithTimeout(60*time.Second, func() *vf.Failure { ndb = db.Reopen(); return nil })
			if f != nil {
				if hung {
					f.Class = "reopen-hang"
				} else {
					f.Class = "reopen-" + f.Class
				}
				f.Msg = when + ": reopening failed: " + f.Msg
				return f
			}
			db = ndb
			stopped = false
			if f := Battery(db, m, defs, when+" after reopen", identity); f != nil {
				return f
			}
		}
		if op.Check {
			if f := Battery(db, m, defs, when, identity); f != nil {
				return f
			}
		}
	}
	return Battery(db, m, defs, "end of history", identity)
}

func kindClass(def *dbh.TableDef) string {
	if def.SQL {
		return "sql-created"
	}
	if s := special(def); s != "" {
		return s
	}
	return "catalog-none/skip"
}

// ---- generator ------------------------------------------------------------------------------------------

type GenOpts struct {
	AbortTxns   bool // generate rolled-back transactions (C07)
	DupKeys     bool // duplicate keys on B-tree / hash key columns (C07)
	Crash       bool // allow crash restarts (C10)
	MaxTables   int
	MaxCols     int
	Prof        sqlgen.Profile
	SpecialKind []string // index kinds allowed on the key column of "special" tables
	// NoBtreeCleanAfterCrash: known finding KF-C07-btree-stale-header-after-crash — once a history with a
	// B-tree table had a crash restart, later restarts are crash restarts too
	NoBtreeCleanAfterCrash bool
	OnExcluded             func(string)
	// BigLogPct: share of operations (at most one per history) that insert about 600 KB into a helper table in one session
	BigLogPct int
	// EmptyFirstPct: share of operations (at most one per history) that fill a helper table of several pages and delete its oldest rows
	EmptyFirstPct int
	// ChurnPct: share of operations (at most three per history) that fill and thin out a helper table with skip-list indexes
	ChurnPct int
	// BigJoinPct: share of operations that run a hash join over two helper tables (400 x 400 rows)
	BigJoinPct int
	// ManyTablesPct: share of histories that start by creating 9-13 six-column tables (names and column names of
	// different lengths), so that the columns catalog spills over to a second heap page before the restarts begin
	ManyTablesPct int
}

type gstate struct {
	defs       []*dbh.TableDef
	nextID     int32
	ids        map[string][]int32 // table -> live key values of column 0 for special tables
	insertOnly bool               // genDML draws INSERT statements only
}

// Gen draws a history of DDL, DML and restarts.
func Gen(t *rapid.T, o GenOpts) *Case {
	c := &Case{}
	g := &gstate{ids: map[string][]int32{}}
	n := rapid.IntRange(3, 18).Draw(t, "nops")
	nIdx, nBtree := 0, 0
	bigLogDone, emptyFirstDone := false, false
	nChurn := 0
	if o.ManyTablesPct > 0 && rapid.IntRange(0, 99).Draw(t, "many") < o.ManyTablesPct {
		nw := rapid.IntRange(9, 13).Draw(t, "nwide")
		longNames := rapid.IntRange(0, 2).Draw(t, "longnames") == 0
		colNames := []string{"a", "bb", "ccc", "dddd", "eeeee", "ffffff"}
		if longNames {
			// 24-28 tables with 150-character names and two columns: the table catalog itself spills over to a second heap page
			nw = rapid.IntRange(24, 28).Draw(t, "nlong")
			colNames = colNames[:2]
		}
		for w := 0; w < nw; w++ {
			name := fmt.Sprintf(rapid.SampledFrom([]string{"w%d", "wide%d", "wide_table_%d", "W%d"}).Draw(t, "wname"), w)
			if longNames {
				name = fmt.Sprintf("long_named_table_%03d_%s", w, strings.Repeat("n", 128))
			}
			def := &dbh.TableDef{Name: name}
			names := colNames
			if !longNames {
				// column names in any order of lengths, one of them long: the columns' catalog rows have very different sizes
				names = append([]string{}, rapid.Permutation(colNames).Draw(t, "colorder")...)
				names[rapid.IntRange(0, len(names)-1).Draw(t, "longcol")] = "col_" + strings.Repeat("x", rapid.IntRange(20, 70).Draw(t, "longcollen"))
			}
			for ci, cn := range names {
				cl := dbh.Col{Name: cn, T: rapid.SampledFrom([]string{"i", "i", "f", "s"}).Draw(t, "wtype"), Idx: dbh.IdxNone}
				if ci == 0 && rapid.Bool().Draw(t, "widx") {
					cl.Idx = dbh.IdxSkip
					nIdx++
				}
				def.Cols = append(def.Cols, cl)
			}
			g.defs = append(g.defs, def)
			c.Ops = append(c.Ops, Op{K: "create", Def: def})
			if w%3 == 2 {
				if s := genDML(t, g, def, o); s != nil {
					c.Ops = append(c.Ops, Op{K: "dml", Stmt: s})
				}
			}
		}
		c.Ops = append(c.Ops, Op{K: restartKind(t, o, c, nBtree)})
		o.MaxTables = nw + 4
		if n < 8 {
			n = 8
		}
	}
	for i := 0; i < n; i++ {
		k := rapid.IntRange(0, 9).Draw(t, "opk")
		if o.BigLogPct > 0 && len(g.defs) > 0 && !bigLogDone && rapid.IntRange(0, 99).Draw(t, "biglog") < o.BigLogPct {
			bigLogDone = true
			c.Ops = append(c.Ops, Op{K: "biglog"})
			if rapid.IntRange(0, 2).Draw(t, "logrestart") != 0 {
				c.Ops = append(c.Ops, Op{K: restartKind(t, o, c, nBtree)})
			}
			continue
		}
		if o.EmptyFirstPct > 0 && len(g.defs) > 0 && !emptyFirstDone && rapid.IntRange(0, 99).Draw(t, "emptyfirst") < o.EmptyFirstPct {
			emptyFirstDone = true
			nIdx++
			c.Ops = append(c.Ops, Op{K: "emptyfirst"})
			if rapid.IntRange(0, 2).Draw(t, "efrestart") != 0 {
				c.Ops = append(c.Ops, Op{K: restartKind(t, o, c, nBtree)})
			}
			continue
		}
		if o.ChurnPct > 0 && len(g.defs) > 0 && nChurn < 3 && rapid.IntRange(0, 99).Draw(t, "churn") < o.ChurnPct {
			if nChurn == 0 {
				nIdx += 2
			}
			nChurn++
			c.Ops = append(c.Ops, Op{K: "churn"})
			if rapid.Bool().Draw(t, "churnrestart") {
				c.Ops = append(c.Ops, Op{K: restartKind(t, o, c, nBtree)})
				c.Ops = append(c.Ops, Op{K: "churn"}) // allocate pages right after the restart
				nChurn++
			}
			continue
		}
		if o.BigJoinPct > 0 && len(g.defs) > 0 && rapid.IntRange(0, 99).Draw(t, "bigjoin") < o.BigJoinPct {
			c.Ops = append(c.Ops, Op{K: "bigjoin"})
			if rapid.Bool().Draw(t, "joinrestart") { // stop right after the join: nothing else allocates a page in between
				c.Ops = append(c.Ops, Op{K: restartKind(t, o, c, nBtree)})
			}
			continue
		}
		switch {
		case len(g.defs) == 0 || (k == 0 && len(g.defs) < o.MaxTables):
			// table names are case-insensitive in the engine (the catalog folds them to lower case); some names are written with capitals
			name := fmt.Sprintf(rapid.SampledFrom([]string{"t%d", "t%d", "t%d", "Tb%d", "tBL%d"}).Draw(t, "tname"), len(g.defs))
			def := genTable(t, name, o)
			g.defs = append(g.defs, def)
			for _, cl := range def.Cols {
				switch cl.Idx {
				case dbh.IdxSkip, dbh.IdxUniqSkip:
					nIdx++
				case dbh.IdxBtree:
					nBtree++
				}
			}
			c.Ops = append(c.Ops, Op{K: "create", Def: def})
		case k <= 6:
			def := g.defs[rapid.IntRange(0, len(g.defs)-1).Draw(t, "tbl")]
			if o.AbortTxns && rapid.IntRange(0, 3).Draw(t, "aborted") == 0 {
				saved := map[string][]int32{}
				for kk, v := range g.ids {
					saved[kk] = append([]int32{}, v...)
				}
				op := Op{K: "abort-txn", Check: true}
				ns := rapid.IntRange(1, 3).Draw(t, "nab")
				for j := 0; j < ns; j++ {
					d := def
					if len(g.defs) > 1 && rapid.Bool().Draw(t, "othertbl") {
						d = g.defs[rapid.IntRange(0, len(g.defs)-1).Draw(t, "abtbl")] // one rolled-back transaction may change several tables
					}
					if s := genDML(t, g, d, o); s != nil {
						op.Stmts = append(op.Stmts, *s)
					}
				}
				g.ids = saved
				c.Ops = append(c.Ops, op)
			} else if s := genDML(t, g, def, o); s != nil {
				c.Ops = append(c.Ops, Op{K: "dml", Stmt: s, Check: rapid.IntRange(0, 5).Draw(t, "chk") == 0})
			}
		default:
			c.Ops = append(c.Ops, Op{K: restartKind(t, o, c, nBtree)})
		}
	}
	if k := c.Ops[len(c.Ops)-1].K; k == "create" || k == "dml" || k == "abort-txn" || k == "bigjoin" || k == "biglog" || k == "churn" || k == "emptyfirst" {
		c.Ops = append(c.Ops, Op{K: restartKind(t, o, c, nBtree)})
	}
	frames := 3*nIdx + 8*nBtree + 10 + rapid.SampledFrom([]int{0, 6, 30, 100}).Draw(t, "spare")
	c.KB = frames * 4
	return c
}

func restartKind(t *rapid.T, o GenOpts, c *Case, nBtree int) string {
	kind := "restart"
	if o.Crash && rapid.Bool().Draw(t, "crash") {
		kind = "crash"
	}
	if kind == "restart" && o.NoBtreeCleanAfterCrash {
		crashed, btree := false, false
		for _, op := range c.Ops {
			if op.K == "crash" {
				crashed = true
			}
			if op.K == "create" && special(op.Def) == dbh.IdxBtree {
				btree = true
			}
		}
		if crashed && btree {
			if o.OnExcluded != nil {
				o.OnExcluded("btree-clean-restart-after-crash")
			}
			kind = "crash"
		}
	}
	return kind
}

func genTable(t *rapid.T, name string, o GenOpts) *dbh.TableDef {
	def := &dbh.TableDef{Name: name}
	cls := rapid.IntRange(0, 3).Draw(t, "tclass")
	ncols := rapid.IntRange(1, o.MaxCols).Draw(t, "ncols")
	colNames := []string{"a", "b", "c", "d", "e", "f"}
	switch {
	case cls == 0:
		def.SQL = true
	case cls == 3 && len(o.SpecialKind) > 0:
		// special: key column 0 is an int with a unique-skip-list / B-tree / hash index
	}
	for i := 0; i < ncols; i++ {
		cl := dbh.Col{Name: colNames[i], T: rapid.SampledFrom([]string{"i", "i", "f", "s"}).Draw(t, "ctype")}
		switch {
		case def.SQL:
			cl.Idx = dbh.IdxSkip
		case cls == 3 && len(o.SpecialKind) > 0 && i == 0:
			cl.T = "i"
			cl.Idx = rapid.SampledFrom(o.SpecialKind).Draw(t, "skind")
		default:
			cl.Idx = rapid.SampledFrom([]string{dbh.IdxNone, dbh.IdxSkip}).Draw(t, "cidx")
		}
		def.Cols = append(def.Cols, cl)
	}
	if cls == 3 && len(o.SpecialKind) > 0 && ncols >= 2 && rapid.Bool().Draw(t, "skind2") {
		// a second index of the special kind on the last column, i.e. behind columns with other or no indexes
		def.Cols[ncols-1].T = "i"
		def.Cols[ncols-1].Idx = def.Cols[0].Idx
	}
	return def
}

// special2 reports whether the last column carries a second index of the table's special kind.
func special2(def *dbh.TableDef) bool {
	n := len(def.Cols)
	return n >= 2 && special(def) != "" && def.Cols[n-1].Idx == def.Cols[0].Idx
}

func genDML(t *rapid.T, g *gstate, def *dbh.TableDef, o GenOpts) *dbh.Stmt {
	sp := special(def)
	if sp == "" {
		var s dbh.Stmt
		dk := rapid.IntRange(0, 5).Draw(t, "dk")
		if g.insertOnly {
			dk = 0
		}
		switch dk {
		case 0, 1, 2:
			s = sqlgen.Insert(t, def, o.Prof)
		case 3, 4:
			s = sqlgen.Update(t, def, o.Prof)
		default:
			s = sqlgen.Delete(t, def, o.Prof)
		}
		return &s
	}
	names := make([]string, len(def.Cols))
	for i, cl := range def.Cols {
		names[i] = cl.Name
	}
	prof := o.Prof
	prof.NoNull = false
	// special tables: unique int keys from a counter; DELETE/UPDATE through predicates with OR (sequential plan);
	// no UPDATE at all on hash-indexed tables (LinearProbeHashTableIndex.UpdateEntry is not implemented)
	live := g.ids[def.Name]
	k := rapid.IntRange(0, 5).Draw(t, "sdk")
	if len(live) == 0 || g.insertOnly {
		k = 0
	}
	dead := func(p *dbh.Pred) *dbh.Pred { return dbh.Or(p, dbh.Leaf(def.Cols[0].Name, "=", dbh.IntV(2000000000))) }
	switch {
	case k <= 2:
		nr := rapid.IntRange(1, 3).Draw(t, "nr")
		s := &dbh.Stmt{Kind: "insert", Table: def.Name, Cols: names}
		for i := 0; i < nr; i++ {
			g.nextID++
			r := sqlgen.Row(t, def, prof)
			key := g.nextID
			if o.DupKeys && sp != dbh.IdxUniqSkip && len(live) > 0 && rapid.IntRange(0, 2).Draw(t, "dup") == 0 {
				key = live[rapid.IntRange(0, len(live)-1).Draw(t, "dupof")] // duplicate key (non-unique kinds)
			}
			if sp == dbh.IdxHash && rapid.Bool().Draw(t, "endkey") {
				// keys that collide at the end of one block page of the hash index
				for _, ek := range hashEndKeys {
					used := false
					for _, x := range live {
						used = used || x == ek
					}
					if !used {
						key = ek
						break
					}
				}
			}
			r[0] = dbh.IntV(key)
			if special2(def) {
				if sp == dbh.IdxUniqSkip {
					r[len(r)-1] = dbh.IntV(key + 1000000) // unique as well
				} else {
					r[len(r)-1] = dbh.IntV(key % 7) // duplicates, never NULL
				}
			}
			for ci, cl := range def.Cols { // B-tree container keys are limited in length; keep strings short on these tables
				if cl.T == "s" && !r[ci].Null && len(r[ci].S) > 20 {
					r[ci] = dbh.StrV(r[ci].S[:20])
				}
			}
			s.Rows = append(s.Rows, r)
			live = append(live, key)
		}
		g.ids[def.Name] = live
		return s
	case k <= 4 && sp != dbh.IdxHash && len(def.Cols) > 1:
		cl := def.Cols[rapid.IntRange(1, len(def.Cols)-1).Draw(t, "ucol")]
		v := sqlgen.Value(t, cl.T, sqlgen.ColProfile(cl, prof), "uv")
		if v.T == 's' && len(v.S) > 20 {
			v = dbh.StrV(v.S[:20])
		}
		id := live[rapid.IntRange(0, len(live)-1).Draw(t, "uid")]
		if special2(def) && cl.Name == def.Cols[len(def.Cols)-1].Name {
			if sp == dbh.IdxUniqSkip {
				v = dbh.IntV(id + 1000000) // keeps its (unique) value
			} else {
				v = dbh.IntV(int32(rapid.IntRange(0, 6).Draw(t, "uv2")))
			}
		}
		return &dbh.Stmt{Kind: "update", Table: def.Name, Set: []dbh.SetItem{{Col: cl.Name, V: v}}, Where: dead(dbh.Leaf(def.Cols[0].Name, "=", dbh.IntV(id)))}
	default:
		idx := rapid.IntRange(0, len(live)-1).Draw(t, "did")
		if sp == dbh.IdxHash {
			for i, x := range live { // prefer a key from the end of a block page
				for _, ek := range hashEndKeys {
					if x == ek {
						idx = i
					}
				}
			}
		}
		id := live[idx]
		var keep []int32
		for _, x := range live {
			if x != id {
				keep = append(keep, x)
			}
		}
		g.ids[def.Name] = keep
		return &dbh.Stmt{Kind: "delete", Table: def.Name, Where: dead(dbh.Leaf(def.Cols[0].Name, "=", dbh.IntV(id)))}
	}
}

func removeAll(dir string) { os.RemoveAll(dir) }

var _ = strings.Repeat
