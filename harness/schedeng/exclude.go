package schedeng

import (
	"strings"

	"verifharness/dbh"
)

// ExcludeIndexReadOfRekeyedRow implements the exclusion of known finding
// KF-C04-rekeyed-row-hidden-from-index-readers: a read that can take an index path on column k
// (no OR in the predicate, or a join) is not executed while another open transaction has changed
// the key k of a committed row that the reader's predicate selects by its committed key.
func ExcludeIndexReadOfRekeyedRow(m *Model, txn int, st *Step) string {
	const name = "index-read-by-preimage-key-of-open-rekey"
	var tables []string
	var match func(table string, r dbh.Row) bool
	switch {
	case st.J != nil:
		tables = st.J.Tables
		match = func(table string, r dbh.Row) bool {
			for _, f := range st.J.Filters {
				parts := strings.SplitN(f.Col, ".", 2)
				if parts[0] != table {
					continue
				}
				if !f.Eval(func(string) dbh.Val { return r[m.Defs[table].ColIdx(parts[1])] }, dbh.EvalMode{}) {
					return false
				}
			}
			return true
		}
	case st.S != nil && st.S.Kind == "select":
		// DML reads take locks that conflict with the re-keying writer, or abort; only plain reads are affected
		if st.S.Where != nil && st.S.Where.HasOr() {
			return ""
		}
		tables = []string{st.S.Table}
		match = func(table string, r dbh.Row) bool {
			return st.S.Where.Eval(func(c string) dbh.Val { return r[m.Defs[table].ColIdx(c)] }, dbh.EvalMode{})
		}
	default:
		if st.S == nil || st.S.Where == nil || st.S.Where.HasOr() {
			return ""
		}
		// UPDATE / DELETE with an index-path predicate: rows hidden from the scan are silently not changed
		tables = []string{st.S.Table}
		match = func(table string, r dbh.Row) bool {
			return st.S.Where.Eval(func(c string) dbh.Val { return r[m.Defs[table].ColIdx(c)] }, dbh.EvalMode{})
		}
	}
	for u := range m.Open {
		if u == txn {
			continue
		}
		for _, tn := range tables {
			for id := range m.Rekeyed[u][tn] {
				if cr, was := m.Committed[tn][id]; was && match(tn, cr) {
					return name
				}
			}
		}
	}
	return ""
}
