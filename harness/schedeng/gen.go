package schedeng

import (
	"fmt"
	"strings"

	"pgregory.net/rapid"

	"verifharness/dbh"
)

// Tables of the schedule checks: t(id, k, v) with skip-list indexes on id and k, u(id, k) likewise.
var TDef = dbh.TableDef{Name: "t", Cols: []dbh.Col{{Name: "id", T: "i", Idx: dbh.IdxSkip}, {Name: "k", T: "i", Idx: dbh.IdxSkip}, {Name: "v", T: "s", Idx: dbh.IdxNone}}}
var UDef = dbh.TableDef{Name: "u", Cols: []dbh.Col{{Name: "id", T: "i", Idx: dbh.IdxSkip}, {Name: "k", T: "i", Idx: dbh.IdxSkip}}}

type GenOpts struct {
	MaxTxns    int
	MaxStmts   int
	Joins      bool
	ReadOnlyOK bool
}

type gen struct {
	nextID  int32
	nextVal int
}

func (g *gen) uniq() string { g.nextVal++; return fmt.Sprintf("w%d", g.nextVal) }

// GenProgram draws tables, initial rows and 2..MaxTxns transactions mixing reads through every access
// path with inserts, deletes, key-changing and relocating updates, ending in commit or abort.
func GenProgram(t *rapid.T, o GenOpts) *Program {
	p := &Program{Defs: []dbh.TableDef{TDef, UDef}, KB: 200}
	g := &gen{}
	nt := rapid.IntRange(3, 8).Draw(t, "nrows_t")
	var trows, urows []dbh.Row
	for i := 0; i < nt; i++ {
		g.nextID++
		trows = append(trows, dbh.Row{dbh.IntV(g.nextID), dbh.IntV(rapid.Int32Range(0, 4).Draw(t, "k")), dbh.StrV(g.uniq())})
	}
	p.Stats = o.Joins && rapid.Bool().Draw(t, "stats")
	nu := rapid.IntRange(2, 5).Draw(t, "nrows_u")
	if p.Stats {
		nu = rapid.SampledFrom([]int{3, 8, 20, 30}).Draw(t, "nrows_u_big") // a larger inner table makes the index join the cheaper plan
	}
	for i := 0; i < nu; i++ {
		urows = append(urows, dbh.Row{dbh.IntV(int32(100 + i)), dbh.IntV(rapid.Int32Range(0, 4).Draw(t, "uk"))})
	}
	p.Init = [][]dbh.Row{trows, urows}
	ntx := rapid.IntRange(2, o.MaxTxns).Draw(t, "ntxns")
	for x := 0; x < ntx; x++ {
		ns := rapid.IntRange(1, o.MaxStmts).Draw(t, "nstmts")
		var steps []Step
		for s := 0; s < ns; s++ {
			steps = append(steps, g.genStep(t, o, nt))
		}
		end := "commit"
		if rapid.IntRange(0, 3).Draw(t, "abort") == 0 {
			end = "abort"
		}
		steps = append(steps, Step{End: end})
		p.Txns = append(p.Txns, steps)
	}
	return p
}

func deadOr(p *dbh.Pred) *dbh.Pred { return dbh.Or(p, dbh.Leaf("id", "=", dbh.IntV(7777777))) }

func (g *gen) genStep(t *rapid.T, o GenOpts, nIDs int) Step {
	id := func(l string) dbh.Val { return dbh.IntV(rapid.Int32Range(1, int32(nIDs)).Draw(t, l)) }
	kv := func(l string) dbh.Val { return dbh.IntV(rapid.Int32Range(0, 4).Draw(t, l)) }
	all := []string{"id", "k", "v"}
	kind := rapid.IntRange(0, 13).Draw(t, "stepkind")
	switch kind {
	case 0: // sequential scan (predicate written with OR)
		return Step{S: &dbh.Stmt{Kind: "select", Table: "t", Cols: all, Where: deadOr(dbh.Leaf("k", "=", kv("c")))}}
	case 1: // index point (through the optimizer's plan, or through an explicit point-scan plan)
		return Step{S: &dbh.Stmt{Kind: "select", Table: "t", Cols: all, Where: dbh.Leaf("k", "=", kv("c"))}, Point: rapid.Bool().Draw(t, "point")}
	case 2: // index range
		a := rapid.Int32Range(0, 4).Draw(t, "a")
		b := a + rapid.Int32Range(0, 3).Draw(t, "span")
		return Step{S: &dbh.Stmt{Kind: "select", Table: "t", Cols: all, Where: dbh.And(dbh.Leaf("k", ">=", dbh.IntV(a)), dbh.Leaf("k", "<=", dbh.IntV(b)))}}
	case 3: // by id
		return Step{S: &dbh.Stmt{Kind: "select", Table: "t", Cols: all, Where: dbh.Leaf("id", "=", id("rid"))}, Point: rapid.Bool().Draw(t, "point")}
	case 4: // full table
		return Step{S: &dbh.Stmt{Kind: "select", Table: "t", Cols: all}}
	case 5:
		if o.Joins {
			q := &dbh.JoinQuery{Tables: []string{"t", "u"}, Conds: []dbh.JoinCond{{L: dbh.ColRef{T: "t", C: "k"}, R: dbh.ColRef{T: "u", C: "k"}}},
				Cols: []dbh.ColRef{{T: "t", C: "id"}, {T: "t", C: "k"}, {T: "u", C: "id"}}}
			if rapid.Bool().Draw(t, "jf") {
				v := kv("jc")
				q.Filters = []*dbh.Pred{dbh.Leaf("t.k", "=", v)}
			}
			return Step{J: q}
		}
		fallthrough
	case 6: // insert
		g.nextID++
		v := g.uniq()
		if rapid.IntRange(0, 4).Draw(t, "big") == 0 {
			v += strings.Repeat("x", 900)
		}
		return Step{S: &dbh.Stmt{Kind: "insert", Table: "t", Cols: all, Rows: []dbh.Row{{dbh.IntV(g.nextID), kv("ik"), dbh.StrV(v)}}}}
	case 7: // delete by id
		return Step{S: &dbh.Stmt{Kind: "delete", Table: "t", Where: dbh.Leaf("id", "=", id("did"))}}
	case 8: // delete by key
		return Step{S: &dbh.Stmt{Kind: "delete", Table: "t", Where: dbh.Leaf("k", "=", kv("dk"))}}
	case 9, 10: // key-changing update
		if rapid.Bool().Draw(t, "byid") {
			return Step{S: &dbh.Stmt{Kind: "update", Table: "t", Set: []dbh.SetItem{{Col: "k", V: kv("nk")}}, Where: dbh.Leaf("id", "=", id("uid"))}}
		}
		return Step{S: &dbh.Stmt{Kind: "update", Table: "t", Set: []dbh.SetItem{{Col: "k", V: kv("nk")}}, Where: dbh.Leaf("k", "=", kv("ok"))}}
	case 11: // relocating update (row grows beyond its space) that keeps the key
		return Step{S: &dbh.Stmt{Kind: "update", Table: "t", Set: []dbh.SetItem{{Col: "v", V: dbh.StrV(g.uniq() + strings.Repeat("y", 1200))}}, Where: dbh.Leaf("id", "=", id("uid"))}}
	case 12: // in-place update of the payload
		return Step{S: &dbh.Stmt{Kind: "update", Table: "t", Set: []dbh.SetItem{{Col: "v", V: dbh.StrV(g.uniq())}}, Where: dbh.Leaf("id", "=", id("uid"))}}
	default: // write on u (join inner side)
		return Step{S: &dbh.Stmt{Kind: "update", Table: "u", Set: []dbh.SetItem{{Col: "k", V: kv("unk")}}, Where: dbh.Leaf("id", "=", dbh.IntV(int32(100+rapid.IntRange(0, 1).Draw(t, "uidx"))))}}
	}
}

// Counts returns the number of steps per transaction.
func (p *Program) Counts() []int {
	c := make([]int, len(p.Txns))
	for i, t := range p.Txns {
		c[i] = len(t)
	}
	return c
}

// GenWord draws one interleaving of the program's steps.
func GenWord(t *rapid.T, p *Program) []int {
	rem := p.Counts()
	total := 0
	for _, c := range rem {
		total += c
	}
	w := make([]int, 0, total)
	for len(w) < total {
		var avail []int
		for i, c := range rem {
			if c > 0 {
				avail = append(avail, i)
			}
		}
		x := avail[rapid.IntRange(0, len(avail)-1).Draw(t, "next")]
		rem[x]--
		w = append(w, x)
	}
	return w
}
