// Package schedeng runs multi-statement transactions in statement-level interleavings from one
// goroutine (row locks are no-wait, so nothing blocks) and compares every statement with a
// transaction model: committed state + per-transaction overlay of own writes. Used by C03, C04, C05.
package schedeng

import (
	"fmt"
	"sort"
	"strings"
	"time"

	"verifharness/dbh"
	"verifharness/vf"
)

type Step struct {
	S   *dbh.Stmt      `json:"s,omitempty"`
	J   *dbh.JoinQuery `json:"j,omitempty"`
	End string         `json:"end,omitempty"` // "commit" | "abort" (last step of a transaction)
	// Point: S is SELECT <all columns> WHERE <indexed column> = <constant>; it is executed through an explicit
	// index point scan plan (the path an index join probe uses) instead of the plan the optimizer picks
	Point bool `json:"point,omitempty"`
}

type Program struct {
	Defs []dbh.TableDef `json:"defs"`
	Init [][]dbh.Row    `json:"init"` // committed initial rows per table (column 0 = unique immutable id)
	KB   int            `json:"kb"`
	Txns [][]Step       `json:"txns"`
	// Stats: table statistics are computed after the initial load, so that the optimizer may choose the index join
	Stats bool `json:"stats,omitempty"`
}

// ---- transaction model -------------------------------------------------------------------------------

type overlay map[string]map[int32]*dbh.Row // table -> id -> row (nil = deleted)

type Model struct {
	Defs      map[string]*dbh.TableDef
	Committed map[string]map[int32]dbh.Row
	Open      map[int]overlay
	// Rekeyed[txn][table][id]: the open transaction changed the value of an indexed column of this committed row at some point
	Rekeyed map[int]map[string]map[int32]bool
}

func NewModel(p *Program) *Model {
	m := &Model{Defs: map[string]*dbh.TableDef{}, Committed: map[string]map[int32]dbh.Row{}, Open: map[int]overlay{}, Rekeyed: map[int]map[string]map[int32]bool{}}
	for i := range p.Defs {
		d := &p.Defs[i]
		m.Defs[d.Name] = d
		m.Committed[d.Name] = map[int32]dbh.Row{}
		for _, r := range p.Init[i] {
			m.Committed[d.Name][r[0].I] = r.Clone()
		}
	}
	return m
}

// View returns the rows transaction t must see: latest committed data plus its own writes.
func (m *Model) View(t int, table string) []dbh.Row {
	ov := m.Open[t][table]
	var ids []int
	seen := map[int32]bool{}
	for id := range m.Committed[table] {
		ids = append(ids, int(id))
		seen[id] = true
	}
	for id := range ov {
		if !seen[id] {
			ids = append(ids, int(id))
		}
	}
	sort.Ints(ids)
	var out []dbh.Row
	for _, id := range ids {
		if r, ok := ov[int32(id)]; ok {
			if r != nil {
				out = append(out, *r)
			}
			continue
		}
		out = append(out, m.Committed[table][int32(id)])
	}
	return out
}

func (m *Model) viewDB(t int, tables ...string) *dbh.MDB {
	db := dbh.NewMDB()
	for _, tn := range tables {
		db.Create(m.Defs[tn])
		db.Tables[tn].Rows = m.View(t, tn)
	}
	return db
}

func (m *Model) Begin(t int) { m.Open[t] = overlay{} }

// Expect computes the model answer of a statement of t (and applies its writes to t's overlay).
func (m *Model) Expect(t int, st *Step) []dbh.Row {
	if st.J != nil {
		return m.viewDB(t, st.J.Tables...).Join(st.J, dbh.EvalMode{})
	}
	s := st.S
	v := m.viewDB(t, s.Table)
	if s.Kind == "select" {
		return v.Select(s, dbh.EvalMode{})
	}
	before := map[int32]dbh.Row{}
	for _, r := range v.Tables[s.Table].Rows {
		before[r[0].I] = r
	}
	v.Apply(s, dbh.EvalMode{})
	if m.Open[t][s.Table] == nil {
		m.Open[t][s.Table] = map[int32]*dbh.Row{}
	}
	ov := m.Open[t][s.Table]
	after := map[int32]bool{}
	for _, r := range v.Tables[s.Table].Rows {
		after[r[0].I] = true
		if b, ok := before[r[0].I]; !ok || b.Key() != r.Key() {
			rc := r.Clone()
			ov[r[0].I] = &rc
			if cr, was := m.Committed[s.Table][r[0].I]; was {
				for ci, c := range m.Defs[s.Table].Cols {
					if ci > 0 && c.Idx != dbh.IdxNone && c.Idx != "" && cr[ci].Key() != r[ci].Key() {
						if m.Rekeyed[t] == nil {
							m.Rekeyed[t] = map[string]map[int32]bool{}
						}
						if m.Rekeyed[t][s.Table] == nil {
							m.Rekeyed[t][s.Table] = map[int32]bool{}
						}
						m.Rekeyed[t][s.Table][r[0].I] = true
					}
				}
			}
		}
	}
	for id := range before {
		if !after[id] {
			ov[id] = nil
		}
	}
	return nil
}

func (m *Model) Commit(t int) {
	for tn, ov := range m.Open[t] {
		for id, r := range ov {
			if r == nil {
				delete(m.Committed[tn], id)
			} else {
				m.Committed[tn][id] = *r
			}
		}
	}
	delete(m.Open, t)
	delete(m.Rekeyed, t)
}

func (m *Model) Abort(t int) { delete(m.Open, t); delete(m.Rekeyed, t) }

func (m *Model) CommittedRows(table string) []dbh.Row {
	var ids []int
	for id := range m.Committed[table] {
		ids = append(ids, int(id))
	}
	sort.Ints(ids)
	var out []dbh.Row
	for _, id := range ids {
		out = append(out, m.Committed[table][int32(id)])
	}
	return out
}

// OthersTouch reports whether another open transaction has written (insert/update/delete) a row of
// the table that is relevant to the reader: present in the reader's view or in the writer's overlay.
func (m *Model) OthersTouch(t int, table string) bool {
	for u, ov := range m.Open {
		if u != t && len(ov[table]) > 0 {
			return true
		}
	}
	return false
}

// ---- interleavings ----------------------------------------------------------------------------------

// Interleavings enumerates all words over {0..k-1} with counts[i] occurrences of i (lexicographic),
// calling f for each; f returns false to stop.
func Interleavings(counts []int, f func(w []int) bool) {
	total := 0
	for _, c := range counts {
		total += c
	}
	w := make([]int, 0, total)
	rem := append([]int{}, counts...)
	var rec func() bool
	rec = func() bool {
		if len(w) == total {
			return f(w)
		}
		for i := range rem {
			if rem[i] > 0 {
				rem[i]--
				w = append(w, i)
				ok := rec()
				w = w[:len(w)-1]
				rem[i]++
				if !ok {
					return false
				}
			}
		}
		return true
	}
	rec()
}

func CountInterleavings(counts []int) int {
	n := 0
	Interleavings(counts, func([]int) bool { n++; return n < 5000000 })
	return n
}

// ---- execution ---------------------------------------------------------------------------------------

type Event struct {
	Txn     int       `json:"txn"`
	Step    int       `json:"step"`
	What    string    `json:"what"`
	Outcome string    `json:"outcome"` // "ok" | "aborted" | "error:..." | "commit" | "abort" | "skipped:..."
	Rows    []dbh.Row `json:"rows,omitempty"`
	Plan    []string  `json:"plan,omitempty"`
}

type Result struct {
	History       []Event
	Completed     int // statements that returned an answer
	Aborted       int // transactions aborted by the engine
	NontrivReads  int // reads executed while another open transaction had written the table
	Excluded      map[string]int
	PlanClasses   map[string]bool
	CommittedTxns []int
}

type Options struct {
	// Exclusion hook: return a non-empty name to skip the step (known finding excluded by construction).
	Exclude func(m *Model, txn int, st *Step) string
	// AfterAbort / extra assertions
	CheckAfterEachEnd bool
	// NoModelCheck: only record the history (C05 applies its own oracle to it)
	NoModelCheck bool
	// FinalRows receives the committed table contents at the end (table -> rows)
	FinalRows func(table string, rows []dbh.Row)
}

// RunSchedule executes the program under the given interleaving on a fresh in-memory database.
func RunSchedule(p *Program, word []int, opt Options) (*vf.Failure, *Result) {
	res := &Result{Excluded: map[string]int{}, PlanClasses: map[string]bool{}}
	f, _ := vf.WithTimeout(60*time.Second, func() *vf.Failure { return runSchedule(p, word, opt, res) })
	return f, res
}

func runSchedule(p *Program, word []int, opt Options, res *Result) *vf.Failure {
	dbh.NoBackground(true)
	db := dbh.Open("sched", p.KB, false)
	defer db.Stop()
	for i := range p.Defs {
		def := &p.Defs[i]
		if err := db.CreateTable(def); err != nil {
			return vf.Failf("create-error", "%v", err)
		}
		names := colNames(def)
		for r := 0; r < len(p.Init[i]); r += 20 {
			e := r + 20
			if e > len(p.Init[i]) {
				e = len(p.Init[i])
			}
			if _, err := db.Auto(&dbh.Stmt{Kind: "insert", Table: def.Name, Cols: names, Rows: p.Init[i][r:e], Plan: true}); err != nil {
				return vf.Failf("load-error", "%v", err)
			}
		}
		if p.Stats {
			tm := db.Cat().GetTableByName(def.Name)
			st := db.Begin()
			tm.GetStatistics().Update(tm, st.T)
			st.Commit()
		}
	}
	m := NewModel(p)
	txns := make([]*dbh.Txn, len(p.Txns))
	pos := make([]int, len(p.Txns))
	dead := make([]bool, len(p.Txns))
	hist := func(e Event) { res.History = append(res.History, e) }
	for _, ti := range word {
		if dead[ti] || pos[ti] >= len(p.Txns[ti]) {
			continue
		}
		st := &p.Txns[ti][pos[ti]]
		si := pos[ti]
		pos[ti]++
		if txns[ti] == nil {
			txns[ti] = db.Begin()
			m.Begin(ti)
		}
		t := txns[ti]
		if st.End != "" {
			if st.End == "commit" {
				t.Commit()
				m.Commit(ti)
				res.CommittedTxns = append(res.CommittedTxns, ti)
			} else {
				t.Abort()
				m.Abort(ti)
			}
			dead[ti] = true
			hist(Event{Txn: ti, Step: si, What: st.End, Outcome: st.End})
			if opt.CheckAfterEachEnd && !opt.NoModelCheck {
				if f := compareCommitted(db, m, p, fmt.Sprintf("after %s of T%d", st.End, ti), res, txns, dead); f != nil {
					return f
				}
			}
			continue
		}
		what := stepString(st)
		if opt.Exclude != nil {
			if name := opt.Exclude(m, ti, st); name != "" {
				res.Excluded[name]++
				hist(Event{Txn: ti, Step: si, What: what, Outcome: "skipped:" + name})
				continue
			}
		}
		isRead := st.J != nil || st.S.Kind == "select"
		contended := false
		if isRead {
			if st.J != nil {
				for _, tn := range st.J.Tables {
					contended = contended || m.OthersTouch(ti, tn)
				}
			} else {
				contended = m.OthersTouch(ti, st.S.Table)
			}
		}
		var rows []dbh.Row
		var err error
		var shape []string
		if st.J != nil {
			plan, sh, perr := t.PlanJoin(st.J)
			shape, err = sh, perr
			if plan != nil {
				rows, err = t.RunPlan(plan)
			}
		} else if st.Point {
			def := m.Defs[st.S.Table]
			plan, perr := t.PointPlan(st.S.Table, def.ColIdx(st.S.Where.Col), *st.S.Where.V)
			err = perr
			if plan != nil {
				shape = dbh.PlanShape(plan)
				rows, err = t.RunPlan(plan)
			}
		} else {
			plan, sh, perr := t.PlanStmt(st.S)
			shape, err = sh, perr
			if plan != nil {
				rows, err = t.RunPlan(plan)
			}
		}
		for _, n := range shape {
			if strings.HasPrefix(n, "Index") || strings.HasSuffix(n, "Join") || n == "SeqScan" {
				res.PlanClasses["path:"+n] = true
			}
		}
		if t.Done { // aborted by the engine: always acceptable
			m.Abort(ti)
			dead[ti] = true
			res.Aborted++
			hist(Event{Txn: ti, Step: si, What: what, Outcome: "aborted", Plan: shape})
			continue
		}
		if err != nil {
			hist(Event{Txn: ti, Step: si, What: what, Outcome: "error:" + err.Error(), Plan: shape})
			return vf.Failf("stmt-error", "T%d step %d %s failed without aborting the transaction: %v\nhistory: %s", ti, si, what, err, histString(res.History))
		}
		want := m.Expect(ti, st)
		res.Completed++
		hist(Event{Txn: ti, Step: si, What: what, Outcome: "ok", Rows: rows, Plan: shape})
		if isRead {
			if contended {
				res.NontrivReads++
			}
			if d := dbh.MultisetDiff(rows, want); d != "" && !opt.NoModelCheck {
				cls := "read-mismatch:" + pathOf(shape)
				return vf.Failf(cls, "T%d step %d %s (plan %v) completed with an answer that is not 'latest committed data + own writes': %s\nhistory: %s", ti, si, what, shape, d, histString(res.History))
			}
		}
	}
	// finish: everything still open is committed (locks are compatible by construction of 2PL), then compare
	for ti, t := range txns {
		if t != nil && !t.Done {
			t.Commit()
			m.Commit(ti)
			res.CommittedTxns = append(res.CommittedTxns, ti)
			dead[ti] = true
		}
	}
	if opt.FinalRows != nil {
		for i := range p.Defs {
			rows, err := db.ScanAll(p.Defs[i].Name)
			if err != nil {
				return vf.Failf("final-scan-error", "scan of %s: %v", p.Defs[i].Name, err)
			}
			opt.FinalRows(p.Defs[i].Name, rows)
		}
	}
	if opt.NoModelCheck {
		return nil
	}
	return compareCommitted(db, m, p, "at the end", res, txns, dead)
}

func pathOf(shape []string) string {
	for _, n := range shape {
		if strings.HasSuffix(n, "Join") {
			return n
		}
	}
	for _, n := range shape {
		if strings.HasPrefix(n, "Index") {
			return n
		}
	}
	return "SeqScan"
}

// compareCommitted checks the committed state when no transaction is open (otherwise it is skipped:
// a scan would conflict with the open transactions' locks).
func compareCommitted(db *dbh.DB, m *Model, p *Program, when string, res *Result, txns []*dbh.Txn, dead []bool) *vf.Failure {
	for i, t := range txns {
		if t != nil && !dead[i] {
			return nil
		}
	}
	for i := range p.Defs {
		name := p.Defs[i].Name
		rows, err := db.ScanAll(name)
		if err != nil {
			return vf.Failf("final-scan-error", "%s: scan of %s: %v", when, name, err)
		}
		if d := dbh.MultisetDiff(rows, m.CommittedRows(name)); d != "" {
			return vf.Failf("committed-state-mismatch", "%s: table %s differs from the committed state of the model: %s\nhistory: %s", when, name, d, histString(res.History))
		}
	}
	return nil
}

func colNames(def *dbh.TableDef) []string {
	n := make([]string, len(def.Cols))
	for i, c := range def.Cols {
		n[i] = c.Name
	}
	return n
}

func stepString(st *Step) string {
	switch {
	case st.End != "":
		return st.End
	case st.J != nil:
		return st.J.String()
	}
	return st.S.String()
}

func histString(h []Event) string {
	var sb strings.Builder
	for _, e := range h {
		fmt.Fprintf(&sb, "\n    T%d: %s -> %s", e.Txn, e.What, e.Outcome)
		if e.Outcome == "ok" && len(e.Rows) > 0 {
			p := make([]string, 0, len(e.Rows))
			for i, r := range e.Rows {
				if i >= 6 {
					p = append(p, "…")
					break
				}
				p = append(p, r.String())
			}
			fmt.Fprintf(&sb, " %s", strings.Join(p, " "))
		}
	}
	return sb.String()
}

// HistString is exported for checks that build their own messages.
func HistString(h []Event) string { return histString(h) }
