// Package sqlgen holds the rapid generators shared by the SQL-level checks: value dictionaries,
// schemas, rows, predicates (with a sub-generator for several bounds on one column) and statements.
// Every generator only produces what the engine's callers/documentation accept (see DESIGN.md C06).
package sqlgen

import (
	"math"
	"strings"

	"pgregory.net/rapid"

	"verifharness/dbh"
)

// Profile narrows the value domain where a caller precondition demands it.
type Profile struct {
	MaxStr        int               // maximal string length (B-tree varchar keys: 24)
	NoNull        bool              // never generate NULL
	NoNegative    bool              // only values with a literal form in the SQL front end
	SmallOnly     bool              // only the small dense domain (joins, histories that need hits)
	NoSentinels   bool              // exclude the engine's in-band sentinel values (MaxInt32, MinInt32, +-MaxFloat32, sentinel strings)
	NoSentinelStr bool              // exclude only the sentinel strings (known finding KF-C06-sentinel-strings)
	VeryLongStr   bool              // also generate 1300-3900 byte strings (documented maximum "a little less than 4KB")
	NoNullIndexed bool              // NULL only in columns without an index (known finding KF-C06-null-in-indexed-column)
	FlipPct       int               // share of predicate leaves written with the constant on the left ("3 < a")
	OnExcluded    func(name string) // called when a draw was redirected because of a known-finding exclusion
}

var intBoundary = []int32{-1, -5, math.MaxInt32 - 1, math.MinInt32 + 1, 1 << 16, 255, 256, 1 << 24}
var intSentinels = []int32{math.MaxInt32, math.MinInt32}
var floatBoundary = []float32{-0.25, -3.5, 16777216, 1e-30, float32(math.Copysign(0, -1)), math.SmallestNonzeroFloat32, 3.4e38, -3.4e38, 0.1}
var floatSentinels = []float32{math.MaxFloat32, -math.MaxFloat32}
var strBoundary = []string{"", " ", "a b", "a  b", "AbC", "z", "aa", "ab", "b", "あ", "a'b", "a\\b", "ÿ", "SamehadaDB"}

func genInt(t *rapid.T, p Profile, l string) int32 {
	k := rapid.IntRange(0, 9).Draw(t, l+"k")
	switch {
	case k <= 6 || p.SmallOnly:
		return rapid.Int32Range(0, 12).Draw(t, l)
	case k == 7:
		v := rapid.SampledFrom(intBoundary).Draw(t, l)
		if p.NoNegative && v < 0 {
			return -v
		}
		return v
	case k == 8 && !p.NoSentinels:
		v := rapid.SampledFrom(intSentinels).Draw(t, l)
		if p.NoNegative && v < 0 {
			return math.MaxInt32
		}
		return v
	default:
		if p.NoNegative {
			return rapid.Int32Range(0, math.MaxInt32-1).Draw(t, l)
		}
		return rapid.Int32Range(math.MinInt32+1, math.MaxInt32-1).Draw(t, l)
	}
}

func genFloat(t *rapid.T, p Profile, l string) float32 {
	k := rapid.IntRange(0, 9).Draw(t, l+"k")
	switch {
	case k <= 6 || p.SmallOnly:
		return float32(rapid.IntRange(0, 24).Draw(t, l)) / 4
	case k == 7 || k == 9:
		v := rapid.SampledFrom(floatBoundary).Draw(t, l)
		if p.NoNegative && (v < 0 || math.Signbit(float64(v))) {
			return -v
		}
		if p.NoNegative {
			if _, ok := dbh.FloatV(v).SQLLiteral(); !ok {
				return 0.75
			}
		}
		return v
	default:
		if p.NoSentinels {
			return 2.5
		}
		v := rapid.SampledFrom(floatSentinels).Draw(t, l)
		if p.NoNegative {
			return 7.25 // MaxFloat32 has no exact short literal
		}
		return v
	}
}

func genStr(t *rapid.T, p Profile, l string) string {
	max := p.MaxStr
	if max == 0 {
		max = 200
	}
	k := rapid.IntRange(0, 9).Draw(t, l+"k")
	var s string
	switch {
	case k <= 5 || p.SmallOnly:
		n := rapid.IntRange(0, 3).Draw(t, l+"n")
		b := make([]byte, n)
		for i := range b {
			b[i] = "abc"[rapid.IntRange(0, 2).Draw(t, "c")]
		}
		s = string(b)
	case k <= 7:
		s = rapid.SampledFrom(strBoundary).Draw(t, l)
		if p.NoNegative {
			if _, ok := dbh.StrV(s).SQLLiteral(); !ok {
				s = "abc"
			}
		}
	case k == 8 && !p.NoSentinels && !p.NoSentinelStr:
		s = rapid.SampledFrom([]string{"SamehadaDBInfMaxValue", "SamehadaDBInfMinValue"}).Draw(t, l)
	default:
		n := rapid.IntRange(25, 200).Draw(t, l+"n")
		if p.VeryLongStr && rapid.IntRange(0, 3).Draw(t, l+"vl") == 0 {
			n = rapid.SampledFrom([]int{1300, 2000, 3900}).Draw(t, l+"vln")
			max = 4000
		}
		c := "abc"[rapid.IntRange(0, 2).Draw(t, "c")]
		s = strings.Repeat(string(c), n-1) + string("xyz"[rapid.IntRange(0, 2).Draw(t, "e")])
	}
	if len(s) > max {
		s = s[:max]
	}
	return s
}

// Value draws a non-NULL value of the column type.
func Value(t *rapid.T, typ string, p Profile, l string) dbh.Val {
	switch typ {
	case "i":
		return dbh.IntV(genInt(t, p, l))
	case "f":
		return dbh.FloatV(genFloat(t, p, l))
	}
	return dbh.StrV(genStr(t, p, l))
}

// RowValue is Value plus an occasional NULL.
func RowValue(t *rapid.T, typ string, p Profile, l string) dbh.Val {
	if !p.NoNull && rapid.IntRange(0, 24).Draw(t, l+"null") == 0 {
		return dbh.NullV(typ[0])
	}
	return Value(t, typ, p, l)
}

// ColProfile derives the per-column profile (B-tree varchar keys are limited to 24 bytes by BTreeIndex).
func ColProfile(c dbh.Col, base Profile) Profile {
	p := base
	if base.NoNullIndexed && c.Idx != dbh.IdxNone && c.Idx != "" {
		p.NoNull = true
	}
	if c.Idx == dbh.IdxBtree && c.T == "s" && (p.MaxStr == 0 || p.MaxStr > 24) {
		p.MaxStr = 24
	}
	return p
}

// Table draws a schema: 1..maxCols columns; SQL-created (all skip-list) or catalog-created with kinds.
func Table(t *rapid.T, name string, maxCols int, kinds []string) dbh.TableDef {
	n := rapid.IntRange(1, maxCols).Draw(t, "ncols")
	def := dbh.TableDef{Name: name, SQL: rapid.Bool().Draw(t, "sqlcreated")}
	for i := 0; i < n; i++ {
		c := dbh.Col{Name: string(rune('a' + i)), T: rapid.SampledFrom([]string{"i", "i", "f", "s"}).Draw(t, "ctype")}
		if def.SQL {
			c.Idx = dbh.IdxSkip
		} else {
			c.Idx = rapid.SampledFrom(kinds).Draw(t, "cidx")
		}
		def.Cols = append(def.Cols, c)
	}
	return def
}

func Row(t *rapid.T, def *dbh.TableDef, base Profile) dbh.Row {
	r := make(dbh.Row, len(def.Cols))
	for i, c := range def.Cols {
		r[i] = RowValue(t, c.T, ColProfile(c, base), "v")
	}
	return r
}

var cmps = []string{"=", "<>", "<", "<=", ">", ">="}

func leaf(t *rapid.T, def *dbh.TableDef, base Profile) *dbh.Pred {
	c := def.Cols[rapid.IntRange(0, len(def.Cols)-1).Draw(t, "pcol")]
	l := dbh.Leaf(c.Name, rapid.SampledFrom(cmps).Draw(t, "cmp"), Value(t, c.T, ColProfile(c, base), "pv"))
	l.Flip = base.FlipPct > 0 && rapid.IntRange(0, 99).Draw(t, "flip") < base.FlipPct
	return l
}

// boundsOnOneColumn: 2-4 leaves on the same column: redundant, overlapping, contradictory,
// equal-and-range, strict/non-strict mixes, in any order.
func boundsOnOneColumn(t *rapid.T, def *dbh.TableDef, base Profile) *dbh.Pred {
	c := def.Cols[rapid.IntRange(0, len(def.Cols)-1).Draw(t, "bcol")]
	n := rapid.IntRange(2, 4).Draw(t, "nb")
	var p *dbh.Pred
	for i := 0; i < n; i++ {
		l := dbh.Leaf(c.Name, rapid.SampledFrom([]string{"=", "<", "<=", ">", ">=", ">=", "<=", "<>"}).Draw(t, "bcmp"), Value(t, c.T, ColProfile(c, base), "bv"))
		l.Flip = base.FlipPct > 0 && rapid.IntRange(0, 99).Draw(t, "bflip") < base.FlipPct
		if p == nil {
			p = l
		} else {
			p = dbh.And(p, l)
		}
	}
	return p
}

// Predicate draws a predicate with 1..6 leaves; allowOr=false keeps it conjunctive (optimizer path).
func Predicate(t *rapid.T, def *dbh.TableDef, base Profile, allowOr bool) *dbh.Pred {
	kind := rapid.IntRange(0, 9).Draw(t, "pkind")
	switch {
	case kind <= 2:
		return leaf(t, def, base)
	case kind <= 5:
		p := boundsOnOneColumn(t, def, base)
		if rapid.Bool().Draw(t, "extra") {
			if rapid.Bool().Draw(t, "front") {
				p = dbh.And(leaf(t, def, base), p)
			} else {
				p = dbh.And(p, leaf(t, def, base))
			}
		}
		return p
	}
	n := rapid.IntRange(2, 5).Draw(t, "nleaf")
	var build func(k int) *dbh.Pred
	build = func(k int) *dbh.Pred {
		if k == 1 {
			return leaf(t, def, base)
		}
		l := rapid.IntRange(1, k-1).Draw(t, "split")
		op := "and"
		if allowOr && rapid.IntRange(0, 2).Draw(t, "or") == 0 {
			op = "or"
		}
		return &dbh.Pred{Op: op, L: build(l), R: build(k - l)}
	}
	return build(n)
}

// MultiBoundCols counts columns constrained by more than one leaf of a conjunctive predicate.
func MultiBoundCols(p *dbh.Pred) int {
	if p == nil || p.HasOr() {
		return 0
	}
	cnt := map[string]int{}
	for _, l := range p.Leaves() {
		cnt[l.Col]++
	}
	n := 0
	for _, c := range cnt {
		if c > 1 {
			n++
		}
	}
	return n
}

// WithDeadOrBranch returns "<where> OR col = <value no row holds>" (forces the sequential plan and
// must not change the answer); nil when no absent value is found quickly.
func WithDeadOrBranch(s *dbh.Stmt, mt *dbh.MTable) *dbh.Stmt {
	for ci, c := range mt.Def.Cols {
		if c.T != "i" {
			continue
		}
		used := map[int32]bool{}
		for _, r := range mt.Rows {
			if !r[ci].Null {
				used[r[ci].I] = true
			}
		}
		for cand := int32(777001); cand < 777050; cand++ {
			if !used[cand] {
				alt := *s
				alt.Where = dbh.Or(s.Where, dbh.Leaf(c.Name, "=", dbh.IntV(cand)))
				return &alt
			}
		}
	}
	// no int column: use a string that no row holds
	for ci, c := range mt.Def.Cols {
		if c.T != "s" {
			continue
		}
		used := map[string]bool{}
		for _, r := range mt.Rows {
			used[r[ci].S] = true
		}
		for _, cand := range []string{"qqq1", "qqq2", "qqq3"} {
			if !used[cand] {
				alt := *s
				alt.Where = dbh.Or(s.Where, dbh.Leaf(c.Name, "=", dbh.StrV(cand)))
				return &alt
			}
		}
	}
	return nil
}

func colNames(def *dbh.TableDef) []string {
	n := make([]string, len(def.Cols))
	for i, c := range def.Cols {
		n[i] = c.Name
	}
	return n
}

// Select draws a SELECT: "*" or a permuted / repeated column list, optional WHERE.
func Select(t *rapid.T, def *dbh.TableDef, base Profile) dbh.Stmt {
	s := dbh.Stmt{Kind: "select", Table: def.Name}
	if rapid.IntRange(0, 2).Draw(t, "star") != 0 {
		n := rapid.IntRange(1, len(def.Cols)).Draw(t, "nsel")
		perm := rapid.Permutation(colNames(def)).Draw(t, "perm")
		s.Cols = perm[:n]
	}
	if rapid.IntRange(0, 9).Draw(t, "nowhere") != 0 {
		s.Where = Predicate(t, def, base, true)
	}
	return s
}

func Insert(t *rapid.T, def *dbh.TableDef, base Profile) dbh.Stmt {
	n := rapid.IntRange(1, 4).Draw(t, "nins")
	s := dbh.Stmt{Kind: "insert", Table: def.Name, Cols: colNames(def)}
	for i := 0; i < n; i++ {
		s.Rows = append(s.Rows, Row(t, def, base))
	}
	return s
}

func Update(t *rapid.T, def *dbh.TableDef, base Profile) dbh.Stmt {
	s := dbh.Stmt{Kind: "update", Table: def.Name}
	n := rapid.IntRange(1, min(3, len(def.Cols))).Draw(t, "nset")
	perm := rapid.Permutation(def.Cols).Draw(t, "setperm")
	for _, c := range perm[:n] {
		s.Set = append(s.Set, dbh.SetItem{Col: c.Name, V: Value(t, c.T, ColProfile(c, base), "sv")})
	}
	if rapid.IntRange(0, 9).Draw(t, "nowhere") != 0 {
		s.Where = Predicate(t, def, base, true)
	}
	return s
}

func Delete(t *rapid.T, def *dbh.TableDef, base Profile) dbh.Stmt {
	s := dbh.Stmt{Kind: "delete", Table: def.Name}
	if rapid.IntRange(0, 9).Draw(t, "nowhere") != 0 {
		s.Where = Predicate(t, def, base, true)
	}
	return s
}

func min(a, b int) int {
	if a < b {
		return a
	}
	return b
}

// ---- joins ------------------------------------------------------------------------------------------

// JoinTables draws 2-3 tables for join queries: first column "k" (small int join key, sometimes NULL),
// second "v" (int payload), optionally "k2" (second key) and "s" (string); SQL- or catalog-created.
func JoinTables(t *rapid.T, n int) []dbh.TableDef {
	var out []dbh.TableDef
	for i := 0; i < n; i++ {
		def := dbh.TableDef{Name: string(rune('a' + i)), SQL: rapid.Bool().Draw(t, "jsql")}
		cols := []dbh.Col{{Name: "k", T: "i"}, {Name: "v", T: "i"}}
		if rapid.Bool().Draw(t, "hask2") || n == 3 {
			cols = append(cols, dbh.Col{Name: "k2", T: "i"})
		}
		if rapid.IntRange(0, 2).Draw(t, "hass") == 0 {
			cols = append(cols, dbh.Col{Name: "s", T: "s"})
		}
		for j := range cols {
			if def.SQL {
				cols[j].Idx = dbh.IdxSkip
			} else {
				cols[j].Idx = rapid.SampledFrom([]string{dbh.IdxNone, dbh.IdxSkip}).Draw(t, "jidx")
			}
		}
		def.Cols = cols
		out = append(out, def)
	}
	return out
}

// JoinRow draws a row for a join table; key columns come from a tiny domain so that keys repeat and miss.
func JoinRow(t *rapid.T, def *dbh.TableDef, p Profile, payload int32) dbh.Row {
	r := make(dbh.Row, len(def.Cols))
	for i, c := range def.Cols {
		switch {
		case c.Name == "k" || c.Name == "k2":
			if !ColProfile(c, p).NoNull && rapid.IntRange(0, 14).Draw(t, "knull") == 0 {
				r[i] = dbh.NullV('i')
			} else {
				r[i] = dbh.IntV(rapid.Int32Range(0, 6).Draw(t, "kval"))
			}
		case c.Name == "v":
			r[i] = dbh.IntV(payload)
		default:
			r[i] = RowValue(t, c.T, Profile{SmallOnly: true, NoNull: ColProfile(c, p).NoNull}, "jv")
		}
	}
	return r
}

func keyCols(def *dbh.TableDef) []string {
	var k []string
	for _, c := range def.Cols {
		if c.Name == "k" || c.Name == "k2" {
			k = append(k, c.Name)
		}
	}
	return k
}

// JoinQ draws a join query over the tables.
func JoinQ(t *rapid.T, defs []dbh.TableDef) dbh.JoinQuery {
	q := dbh.JoinQuery{}
	for _, d := range defs {
		q.Tables = append(q.Tables, d.Name)
	}
	if rapid.Bool().Draw(t, "swap") && len(defs) == 2 {
		q.Tables[0], q.Tables[1] = q.Tables[1], q.Tables[0]
	}
	byName := map[string]*dbh.TableDef{}
	for i := range defs {
		byName[defs[i].Name] = &defs[i]
	}
	ref := func(tbl string) dbh.ColRef {
		return dbh.ColRef{T: tbl, C: rapid.SampledFrom(keyCols(byName[tbl])).Draw(t, "kc")}
	}
	mk := func(x, y string) dbh.JoinCond {
		c := dbh.JoinCond{L: ref(x), R: ref(y)}
		if rapid.Bool().Draw(t, "flip") {
			c.L, c.R = c.R, c.L
		}
		return c
	}
	if len(defs) == 2 {
		q.UseOn = rapid.Bool().Draw(t, "useon")
		q.Conds = []dbh.JoinCond{mk(q.Tables[0], q.Tables[1])}
	} else {
		if rapid.Bool().Draw(t, "star") {
			q.Conds = []dbh.JoinCond{mk(q.Tables[0], q.Tables[1]), mk(q.Tables[0], q.Tables[2])}
		} else {
			q.Conds = []dbh.JoinCond{mk(q.Tables[0], q.Tables[1]), mk(q.Tables[1], q.Tables[2])}
		}
	}
	nf := rapid.IntRange(0, 2).Draw(t, "nfilt")
	for i := 0; i < nf; i++ {
		d := byName[q.Tables[rapid.IntRange(0, len(q.Tables)-1).Draw(t, "ft")]]
		c := d.Cols[rapid.IntRange(0, len(d.Cols)-1).Draw(t, "fc")]
		var v dbh.Val
		if c.Name == "v" {
			v = dbh.IntV(rapid.Int32Range(0, 120).Draw(t, "fv"))
		} else {
			v = Value(t, c.T, Profile{SmallOnly: true}, "fv")
		}
		fl := dbh.Leaf(d.Name+"."+c.Name, rapid.SampledFrom(cmps).Draw(t, "fcmp"), v)
		fl.Flip = rapid.IntRange(0, 3).Draw(t, "fflip") == 0 // constant on the left
		q.Filters = append(q.Filters, fl)
	}
	if rapid.IntRange(0, 3).Draw(t, "star-list") != 0 {
		n := rapid.IntRange(1, 4).Draw(t, "nsel")
		for i := 0; i < n; i++ {
			d := byName[q.Tables[rapid.IntRange(0, len(q.Tables)-1).Draw(t, "st")]]
			c := d.Cols[rapid.IntRange(0, len(d.Cols)-1).Draw(t, "sc")]
			q.Cols = append(q.Cols, dbh.ColRef{T: d.Name, C: c.Name})
		}
	}
	return q
}
