// Package vf is the shared run-time of every property check: it counts generated cases,
// classifies them, keeps samples, records the (shrunk) failing case, applies the committed
// known-findings list and writes one JSON result per process for the driver (/verif/check) to merge.
package vf

import (
	"bufio"
	"encoding/json"
	"fmt"
	"hash/fnv"
	"os"
	"path/filepath"
	"runtime"
	"runtime/debug"
	"sort"
	"strconv"
	"strings"
	"sync"
	"time"
)

// Failure is the verdict of an oracle on one explicit case.
type Failure struct {
	Class string `json:"class"` // structural classification; known-finding matchers use this, never the message
	Msg   string `json:"msg"`
	Extra any    `json:"extra,omitempty"`
}

func (f *Failure) String() string { return f.Class + ": " + f.Msg }

func Failf(class, format string, a ...any) *Failure {
	return &Failure{Class: class, Msg: fmt.Sprintf(format, a...)}
}

// KnownFinding is one line of /verif/known_findings.jsonl.
type KnownFinding struct {
	Status    string   `json:"status"` // "known" | "fixed"
	Property  string   `json:"property"`
	ID        string   `json:"id"`
	What      string   `json:"what"`
	Commit    string   `json:"commit,omitempty"`
	Replay    string   `json:"replay,omitempty"`    // corpus file (relative to /verif) that demonstrates it
	Exclusion string   `json:"exclusion,omitempty"` // generator flag that removes exactly the triggering pattern
	Classes   []string `json:"classes,omitempty"`   // failure classes this entry accounts for (exact match)
	Also      []string `json:"also,omitempty"`      // other properties whose generators must apply the same exclusion
}

type failureRec struct {
	Case    json.RawMessage `json:"case"`
	Failure *Failure        `json:"failure"`
}

type Session struct {
	Prop        string
	Tier        string
	Seed        int64
	Shard       int
	Phase       string
	OutDir      string
	Root        string
	Rule        string
	Assumptions []string
	Exhaustive  bool
	Notes       map[string]any

	mu           sync.Mutex
	start        time.Time
	evals        int64
	nontrivEvals int64
	nontriv      map[uint64]struct{}
	classes      map[string]int64
	samples      []json.RawMessage
	sampleBig    json.RawMessage
	failure      *failureRec
	knownHits    map[string]int64
	knownSample  map[string]json.RawMessage
	excluded     map[string]int64
	known        []KnownFinding
	replayLines  []string
	violations   []violation
	inconclusive []string
}

type violation struct {
	Replay  string   `json:"replay"`
	Failure *Failure `json:"failure"`
}

const maxHashes = 150000

func envOr(k, d string) string {
	if v := os.Getenv(k); v != "" {
		return v
	}
	return d
}

// Open creates the per-process session. Environment (set by the driver):
// VERIF_ROOT (/verif), VERIF_OUT (result directory), VERIF_SHARD, VERIF_PHASE, VERIF_TIER, VERIF_SEED.
func Open(prop string) *Session {
	s := &Session{
		Prop:        prop,
		Tier:        envOr("VERIF_TIER", "quick"),
		Phase:       envOr("VERIF_PHASE", "search"),
		OutDir:      envOr("VERIF_OUT", ""),
		Root:        envOr("VERIF_ROOT", "/verif"),
		start:       time.Now(),
		nontriv:     map[uint64]struct{}{},
		classes:     map[string]int64{},
		knownHits:   map[string]int64{},
		knownSample: map[string]json.RawMessage{},
		excluded:    map[string]int64{},
		Notes:       map[string]any{},
	}
	s.Seed, _ = strconv.ParseInt(envOr("VERIF_SEED", "1"), 10, 64)
	s.Shard, _ = strconv.Atoi(envOr("VERIF_SHARD", "0"))
	s.known = LoadKnown(s.Root, prop)
	return s
}

// MarkCurrent records the case that is about to run in the result directory. If the process is killed by a panic in a
// goroutine the harness cannot guard (the engine's request workers), the driver takes the case from there for the replay file.
func (s *Session) MarkCurrent(c any) {
	if s.OutDir == "" {
		return
	}
	fn := filepath.Join(s.OutDir, fmt.Sprintf("current-%s-%d.json", s.Phase, s.Shard))
	if c == nil {
		os.Remove(fn)
		return
	}
	if b, err := json.Marshal(c); err == nil {
		os.WriteFile(fn, b, 0o644)
	}
}

func (s *Session) Thorough() bool { return s.Tier == "thorough" }

// Pick returns q in the quick tier and t in the thorough tier.
func (s *Session) Pick(q, t int) int {
	if s.Thorough() {
		return t
	}
	return q
}

func LoadKnown(root, prop string) []KnownFinding {
	f, err := os.Open(filepath.Join(root, "known_findings.jsonl"))
	if err != nil {
		return nil
	}
	defer f.Close()
	var out []KnownFinding
	sc := bufio.NewScanner(f)
	sc.Buffer(make([]byte, 1<<20), 1<<24)
	for sc.Scan() {
		line := strings.TrimSpace(sc.Text())
		if line == "" || strings.HasPrefix(line, "#") {
			continue
		}
		var k KnownFinding
		if err := json.Unmarshal([]byte(line), &k); err != nil {
			panic("known_findings.jsonl: " + err.Error())
		}
		if k.Property == prop {
			out = append(out, k)
		} else {
			for _, a := range k.Also {
				if a == prop {
					k.Classes = nil // only the exclusion carries over; matching stays with the owning property
					out = append(out, k)
				}
			}
		}
	}
	return out
}

// ExclusionOn reports whether a committed *known* (not fixed) finding asks the generator to
// avoid the named pattern. The generator must call Excluded(name) each time it redirects a draw.
func (s *Session) ExclusionOn(name string) bool {
	if os.Getenv("VERIF_NO_EXCLUSIONS") == "1" {
		return false
	}
	for _, k := range s.known {
		if k.Status == "known" && k.Exclusion == name {
			return true
		}
	}
	return false
}

func (s *Session) Excluded(name string) {
	s.mu.Lock()
	s.excluded[name]++
	s.mu.Unlock()
}

func (s *Session) matchKnown(f *Failure) *KnownFinding {
	for i := range s.known {
		k := &s.known[i]
		if k.Status != "known" {
			continue
		}
		for _, c := range k.Classes {
			if c == f.Class {
				return k
			}
		}
	}
	return nil
}

func Hash(b []byte) uint64 {
	h := fnv.New64a()
	h.Write(b)
	return h.Sum64()
}

func mustJSON(v any) json.RawMessage {
	switch x := v.(type) {
	case json.RawMessage:
		return x
	case []byte:
		return x
	}
	b, err := json.Marshal(v)
	if err != nil {
		panic(err)
	}
	return b
}

// Count registers one evaluated case. c is the explicit case (any JSON-serialisable value; it is
// only marshalled when needed), nontrivial the verdict of the property's stated rule.
func (s *Session) Count(c any, nontrivial bool, classes ...string) {
	var raw json.RawMessage
	s.mu.Lock()
	defer s.mu.Unlock()
	s.evals++
	for _, cl := range classes {
		if cl != "" {
			s.classes[cl]++
		}
	}
	if !nontrivial {
		return
	}
	s.nontrivEvals++
	needSample := len(s.samples) < 2
	if len(s.nontriv) < maxHashes || needSample || s.nontrivEvals%64 == 0 {
		raw = mustJSON(c)
	}
	if raw == nil {
		return
	}
	if len(s.nontriv) < maxHashes {
		s.nontriv[Hash(raw)] = struct{}{}
	}
	if needSample && len(raw) < 20000 {
		s.samples = append(s.samples, raw)
	} else if len(raw) > len(s.sampleBig) && len(raw) < 20000 {
		s.sampleBig = raw
	}
}

// CountN registers n evaluations of an enumerated (exhaustive) sub-space without storing each case.
func (s *Session) CountN(n, nontrivial int64, class string) {
	s.mu.Lock()
	s.evals += n
	s.nontrivEvals += nontrivial
	if class != "" {
		s.classes[class] += n
	}
	s.mu.Unlock()
}

// AddSample stores an explicit sample (used by enumerating phases).
func (s *Session) AddSample(c any) {
	s.mu.Lock()
	if len(s.samples) < 4 {
		s.samples = append(s.samples, mustJSON(c))
	}
	s.mu.Unlock()
}

// AddDistinct adds hashes of non-trivial cases counted elsewhere (enumerating phases).
func (s *Session) AddDistinct(h uint64) {
	s.mu.Lock()
	if len(s.nontriv) < maxHashes {
		s.nontriv[h] = struct{}{}
	}
	s.mu.Unlock()
}

func (s *Session) Class(cl string, n int64) {
	s.mu.Lock()
	s.classes[cl] += n
	s.mu.Unlock()
}

// TB is the part of *rapid.T / *testing.T the session needs.
type TB interface {
	Fatalf(format string, args ...any)
	Logf(format string, args ...any)
}

// Judge handles the oracle verdict for a generated case: nil passes; a failure accounted for by a
// committed known finding is counted and the search goes on; anything else is recorded (the last
// one recorded is rapid's shrunk case) and fails the rapid property.
func (s *Session) Judge(t TB, c any, f *Failure) {
	if f == nil {
		return
	}
	if k := s.matchKnown(f); k != nil {
		s.mu.Lock()
		s.knownHits[k.ID]++
		if _, ok := s.knownSample[k.ID]; !ok {
			s.knownSample[k.ID] = mustJSON(c)
		}
		s.mu.Unlock()
		return
	}
	s.mu.Lock()
	s.failure = &failureRec{Case: mustJSON(c), Failure: f}
	s.mu.Unlock()
	t.Fatalf("%s", f.String())
}

// Report is Judge for checks that collect several independent findings in one run (e.g. race pairs):
// a failure accounted for by a known finding is counted; anything else is written as its own replay
// file and listed as a violation; the run goes on.
func (s *Session) Report(c any, f *Failure) {
	if f == nil {
		return
	}
	if k := s.matchKnown(f); k != nil {
		s.mu.Lock()
		s.knownHits[k.ID]++
		s.mu.Unlock()
		return
	}
	dir := envOr("VERIF_REPLAYS", filepath.Join(s.Root, "replays"))
	os.MkdirAll(dir, 0o755)
	s.mu.Lock()
	n := len(s.violations)
	s.mu.Unlock()
	name := filepath.Join(dir, fmt.Sprintf("%s-%s-%d-%s%d-%d.json", s.Prop, s.Tier, s.Seed, s.Phase, s.Shard, n))
	b, _ := json.MarshalIndent(CorpusFile{Property: s.Prop, Expect: "pass", Note: "found by phase " + s.Phase, Case: mustJSON(c), Failure: f}, "", " ")
	os.WriteFile(name, b, 0o644)
	rel := name
	if r, err := filepath.Rel(s.Root, name); err == nil && !strings.HasPrefix(r, "..") {
		rel = r
	}
	s.addViolation(rel, f)
}

// Inconclusive marks the process result as infrastructure trouble (driver exit 2).
func (s *Session) Inconclusive(msg string) {
	s.mu.Lock()
	s.inconclusive = append(s.inconclusive, msg)
	s.mu.Unlock()
}

type result struct {
	Prop          string                     `json:"property"`
	Phase         string                     `json:"phase"`
	Shard         int                        `json:"shard"`
	Tier          string                     `json:"tier"`
	Seed          int64                      `json:"seed"`
	Evals         int64                      `json:"evaluations"`
	NontrivEvals  int64                      `json:"nontrivial_evaluations"`
	Hashes        []string                   `json:"hashes"`
	Classes       map[string]int64           `json:"classes"`
	Samples       []json.RawMessage          `json:"samples"`
	Failure       *failureRec                `json:"failure,omitempty"`
	KnownHits     map[string]int64           `json:"known_hits,omitempty"`
	KnownSamples  map[string]json.RawMessage `json:"known_samples,omitempty"`
	Excluded      map[string]int64           `json:"excluded,omitempty"`
	Rule          string                     `json:"rule,omitempty"`
	Assumptions   []string                   `json:"assumptions,omitempty"`
	Exhaustive    bool                       `json:"exhaustive,omitempty"`
	Notes         map[string]any             `json:"notes,omitempty"`
	ReplayLines   []string                   `json:"replay_lines,omitempty"`
	Violations    []violation                `json:"violations,omitempty"`
	Inconclusive  []string                   `json:"inconclusive,omitempty"`
	WallS         float64                    `json:"wall_s"`
	Complete      bool                       `json:"complete"`
	RequestedEval int64                      `json:"requested,omitempty"`
}

// Flush writes the process result. complete=false marks a process that stopped early.
func (s *Session) Flush(complete bool) {
	s.mu.Lock()
	defer s.mu.Unlock()
	if s.OutDir == "" {
		return
	}
	r := result{
		Prop: s.Prop, Phase: s.Phase, Shard: s.Shard, Tier: s.Tier, Seed: s.Seed,
		Evals: s.evals, NontrivEvals: s.nontrivEvals, Classes: s.classes,
		Samples: s.samples, Failure: s.failure, KnownHits: s.knownHits, KnownSamples: s.knownSample,
		Excluded: s.excluded, Rule: s.Rule, Assumptions: s.Assumptions, Exhaustive: s.Exhaustive,
		Notes: s.Notes, ReplayLines: s.replayLines, Violations: s.violations, Inconclusive: s.inconclusive,
		WallS: time.Since(s.start).Seconds(), Complete: complete,
	}
	if s.sampleBig != nil {
		r.Samples = append(append([]json.RawMessage{}, r.Samples...), s.sampleBig)
	}
	hs := make([]string, 0, len(s.nontriv))
	for h := range s.nontriv {
		hs = append(hs, strconv.FormatUint(h, 36))
	}
	sort.Strings(hs)
	r.Hashes = hs
	b, err := json.Marshal(r)
	if err != nil {
		panic(err)
	}
	os.MkdirAll(s.OutDir, 0o755)
	name := filepath.Join(s.OutDir, fmt.Sprintf("%s-%d.json", s.Phase, s.Shard))
	if err := os.WriteFile(name, b, 0o644); err != nil {
		panic(err)
	}
}

// ---------------------------------------------------------------------------------------------
// Replay tier: committed corpus cases (+ the file named by VERIF_REPLAY).

type CorpusFile struct {
	Property string          `json:"property"`
	Expect   string          `json:"expect"` // "pass" | "known:<KF-id>"
	Note     string          `json:"note,omitempty"`
	Case     json.RawMessage `json:"case"`
	Failure  *Failure        `json:"failure,omitempty"`
	// ScheduleDependent: the case is a concurrent workload whose failure needs a particular interleaving; a replay that passes
	// does not mean the finding is gone, so the finding stays announced
	ScheduleDependent bool `json:"schedule_dependent,omitempty"`
}

// Replay runs every committed corpus case of the property (and $VERIF_REPLAY, if set) through
// run. A case expected to pass that fails is a violation; a case tied to a known finding that still
// fails prints the KNOWN-FINDING line (through the driver).
func (s *Session) Replay(run func(raw json.RawMessage) *Failure) {
	var files []string
	if one := os.Getenv("VERIF_REPLAY"); one != "" {
		files = []string{one}
	} else {
		files, _ = filepath.Glob(filepath.Join(s.Root, "corpus", strings.ToLower(s.Prop), "*.json"))
		sort.Strings(files)
	}
	for _, fn := range files {
		b, err := os.ReadFile(fn)
		if err != nil {
			s.Inconclusive("cannot read " + fn + ": " + err.Error())
			continue
		}
		var cf CorpusFile
		if err := json.Unmarshal(b, &cf); err != nil {
			s.Inconclusive("bad corpus file " + fn + ": " + err.Error())
			continue
		}
		f := run(cf.Case)
		rel := fn
		if r, err := filepath.Rel(s.Root, fn); err == nil && !strings.HasPrefix(r, "..") {
			rel = r
		}
		s.mu.Lock()
		s.evals++
		s.classes["replay"]++
		s.mu.Unlock()
		if strings.HasPrefix(cf.Expect, "known:") {
			id := strings.TrimPrefix(cf.Expect, "known:")
			var kf *KnownFinding
			for i := range s.known {
				if s.known[i].ID == id {
					kf = &s.known[i]
				}
			}
			switch {
			case kf == nil:
				s.Inconclusive("corpus file " + rel + " names unknown finding " + id)
			case kf.Status == "fixed":
				// a fixed entry suppresses nothing
				if f != nil {
					s.addViolation(rel, f)
				}
			case f == nil && cf.ScheduleDependent:
				s.mu.Lock()
				s.replayLines = append(s.replayLines, fmt.Sprintf("KNOWN-FINDING: property=%s %s: %s (replay=%s; schedule dependent, the interleaving did not occur in this run)", s.Prop, id, kf.What, rel))
				s.mu.Unlock()
			case f == nil:
				s.mu.Lock()
				s.replayLines = append(s.replayLines, fmt.Sprintf("NOTE: property=%s known finding %s no longer reproduces with %s", s.Prop, id, rel))
				s.mu.Unlock()
			default:
				// the committed case is the finding's identity: it must fail the way it was recorded
				ok := cf.Failure == nil || cf.Failure.Class == f.Class
				if ok {
					s.mu.Lock()
					s.replayLines = append(s.replayLines, fmt.Sprintf("KNOWN-FINDING: property=%s %s: %s (replay=%s)", s.Prop, id, kf.What, rel))
					s.knownHits[id]++
					s.mu.Unlock()
				} else {
					s.addViolation(rel, f)
				}
			}
		} else if f != nil {
			s.addViolation(rel, f)
		}
	}
}

func (s *Session) addViolation(replay string, f *Failure) {
	s.mu.Lock()
	s.violations = append(s.violations, violation{Replay: replay, Failure: f})
	s.mu.Unlock()
}

// ---------------------------------------------------------------------------------------------
// Guarded execution: panics of the code under test become failures with a stable class.

// Guard runs f and converts a panic into a Failure whose class names the innermost frame that is
// inside the repository (function name only — line numbers would make the class unstable).
func Guard(f func() *Failure) (res *Failure) {
	defer func() {
		if r := recover(); r != nil {
			st := string(debug.Stack())
			res = &Failure{Class: "panic@" + InnermostRepoFrame(st), Msg: fmt.Sprint(r), Extra: trimStack(st)}
		}
	}()
	return f()
}

func trimStack(st string) string {
	if len(st) > 6000 {
		return st[:6000]
	}
	return st
}

// InnermostRepoFrame extracts the first function under github.com/ryogrid/SamehadaDB/lib from a
// debug.Stack() text (after the panic frames).
func InnermostRepoFrame(st string) string {
	for _, line := range strings.Split(st, "\n") {
		if strings.HasPrefix(line, "github.com/ryogrid/SamehadaDB/lib/") {
			fn := strings.TrimPrefix(line, "github.com/ryogrid/SamehadaDB/lib/")
			if i := strings.LastIndex(fn, "("); i > 0 {
				fn = fn[:i]
			}
			return fn
		}
	}
	return "unknown"
}

// WaitScheduled waits until done is closed or until this process has been running for d (counted in observed
// 100 ms ticks, see WithTimeout); it reports whether done was closed.
func WaitScheduled(done <-chan struct{}, d time.Duration) bool {
	ticks := int(d / (100 * time.Millisecond))
	tk := time.NewTicker(100 * time.Millisecond)
	defer tk.Stop()
	last := time.Now()
	for n := 0; n < ticks; {
		select {
		case <-done:
			return true
		case now := <-tk.C:
			if now.Sub(last) < 250*time.Millisecond {
				n++
			}
			last = now
		}
	}
	return false
}

// WithTimeout runs f in a goroutine; if it does not return within d the goroutine is abandoned and
// a "hang" failure carrying a goroutine dump is returned (callers decide whether that is a
// violation of their property or an inconclusive run).
func WithTimeout(d time.Duration, f func() *Failure) (*Failure, bool) {
	ch := make(chan *Failure, 1)
	go func() { ch <- Guard(f) }()
	// The budget is counted in observed 100 ms ticks, not in wall-clock time: a process that was stopped or
	// starved of CPU sees fewer ticks (the ticker drops them), so only time in which this process was actually
	// scheduled counts. A goroutine blocked on a latch or spinning in a loop still lets the ticks through.
	ticks := int(d / (100 * time.Millisecond))
	tk := time.NewTicker(100 * time.Millisecond)
	defer tk.Stop()
	last := time.Now()
	for n := 0; n < ticks; {
		select {
		case r := <-ch:
			return r, false
		case now := <-tk.C:
			if now.Sub(last) < 250*time.Millisecond {
				n++ // a gap means the process did not run: that interval is not charged
			}
			last = now
		}
	}
	buf := make([]byte, 1<<20)
	n := runtime.Stack(buf, true)
	return &Failure{Class: "hang", Msg: fmt.Sprintf("no return within %v", d), Extra: string(buf[:n])}, true
}
