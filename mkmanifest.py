#!/usr/bin/env python3
"""Regenerates MANIFEST.json from checks.json (+ manifest_meta.json). Run after editing either."""
import json, os
ROOT = os.path.dirname(os.path.abspath(__file__))
checks = json.load(open(os.path.join(ROOT, "checks.json")))
meta = json.load(open(os.path.join(ROOT, "manifest_meta.json")))
props = [json.loads(l) for l in open(os.path.join(ROOT, "properties.jsonl")) if l.strip()]
out = {
    "version": 1,
    "setup_cmd": "./setup.sh",
    "hooks": meta["hooks"],
    "engines": meta.get("engines", []),
    "checks": [],
    "notes": meta.get("notes", ""),
    "not_applicable": [],
}
for p in props:
    pid = p["id"]
    m = meta["checks"].get(pid)
    if pid in checks and m and not m.get("disabled"):
        c = {
            "property_id": pid,
            "quick_cmd": "./check %s --tier quick" % pid,
            "thorough_cmd": "./check %s --tier thorough" % pid,
            "evidence_file": "evidence/%s.json" % pid,
            "replay_cmd_template": "./check %s --replay {path}" % pid,
            "engine": m.get("engine", "rapid"),
            "level_claimed": {"category": checks[pid]["level"], "text": m["level_text"], "design_ref": m.get("design_ref", "DESIGN.md §5 " + pid)},
            "level_note": m["level_note"],
            "technique": m["technique"],
        }
        out["checks"].append(c)
    else:
        out["not_applicable"].append({"property_id": pid, "reason": (m or {}).get("na_reason", "check not built yet in this session (planned; see DESIGN.md §5)")})
json.dump(out, open(os.path.join(ROOT, "MANIFEST.json"), "w"), indent=1)
print("claimed:", [c["property_id"] for c in out["checks"]])
print("not_applicable:", [c["property_id"] for c in out["not_applicable"]])
