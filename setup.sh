#!/bin/sh
# Offline setup: make sure the harness module resolves and pre-build the shared packages once.
set -e
cd "$(dirname "$0")"
export GOFLAGS=-mod=mod GOPROXY=off GOSUMDB=off GOTOOLCHAIN=local
chmod +x check
cp -f /repo/lib/go.sum harness/go.sum.repo 2>/dev/null || true
[ -f harness/go.sum ] || cp /repo/lib/go.sum harness/go.sum
mkdir -p bin evidence replays
(cd harness && go build -tags verif ./... && go vet -tags verif ./vf >/dev/null 2>&1 || true)
(cd harness && go test -tags verif -count=1 -run '^$' ./... >/dev/null)
echo "setup ok"
