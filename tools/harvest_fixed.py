#!/usr/bin/env python3
"""For every `fix:` commit of /repo: revert just that commit in a scratch worktree, run the check that
owns the defect until it reports a violation, and keep the (shrunk) failing case as a committed
regression case tied to a `fixed` entry of known_findings.jsonl. Also serves as a sensitivity test:
a fix whose removal no check notices is reported.
usage: harvest_fixed.py <worktree> [commit-prefix ...]"""
import json, os, subprocess, sys, shutil, glob

ROOT = "/verif"
WT = sys.argv[1]
only = sys.argv[2:]

# commit subject prefix -> (property whose check should notice, finding id, seeds to try, extra checks)
MAP = [
 ("multi-row INSERT stored only", "C06", "KF-C06-multirow-insert"),
 ("SELECT returned columns in table order", "C06", "KF-C06-select-column-order"),
 ("index range scan plan dropped conditions", "C06", "KF-C06-multi-bounds"),
 ("UPDATE ignored SET items", "C06", "KF-C06-set-order"),
 ("one-sided index range scan used", "C06", "KF-C06-open-varchar-range"),
 ("redo ignored ABORT records", "C02", "KF-C02-abort-ignored-by-redo"),
 ("recovery looped forever", "C01", "KF-C01-torn-log-tail"),
 ("reading a page that was allocated but never written", "C01", "KF-C01-read-beyond-eof"),
 ("BufferPoolManager.FetchPage returned with its mutex held", "C01", "KF-C01-fetchpage-mutex"),
 ("redo of NewTablePage left a page", "C01", "KF-C01-newtablepage-redo"),
 ("page ids of pages recreated by recovery beyond", "C01", "KF-C01-page-id-reuse-after-recovery"),
 ("ids of pages recreated by redo (not yet on the db file)", "C01", "KF-C01-page-id-reuse-during-recovery"),
 ("checkpoint wrote dirty pages before flushing the log", "C01", "KF-C01-checkpoint-before-log"),
 ("the first page of a new table heap was written", "C08", "KF-C08-new-heap-page-before-log"),
 ("scanning a table whose first row was deleted earlier", "C04", "KF-C04-self-deleted-first-row"),
 ("index range scan panicked when the last index entry", "C04", "KF-C04-self-deleted-last-index-entry"),
 ("undo of a delete (and redo of an insert) put the row", "C02", "KF-C02-undo-slot"),
 ("putting a row back into its freed slot", "C01", "KF-C01-undo-nearly-full-page"),
 ("redo refused size-reducing UPDATE", "C01", "KF-C01-redo-shrinking-update"),
 ("recovery truncated the log before", "C20", "KF-C20-truncate-before-flush"),
 ("undo at recovery was not idempotent", "C20", "KF-C20-undo-not-idempotent"),
 ("table id counter restarted at 1", "C10", "KF-C10-table-id-counter"),
 ("skip list indexes were empty after a clean shutdown", "C09", "KF-C09-skiplist-empty-after-reopen"),
 ("LSNs restarted from 0", "C10", "KF-C10-lsn-restart"),
 ("index scans aborted the transaction when the indexed column", "C06", "KF-C06-null-in-indexed-column"),
 ("index join probed the index with NULL join keys", "C11", "KF-C11-index-join-null-key"),
 ("DeallocatePage(isNoWait=true) left the frame", "C13", "KF-C13-dealloc-nowait"),
 ("hash join never unpinned its last temporary page", "C14", "KF-C14-hash-join-pin-leak"),
 ("index join ignored WHERE conditions", "C11", "KF-C11-index-join-filter-lost"),
 ("join conditions were dropped (cross product returned)", "C11", "KF-C11-cross-product"),
 ("NULL join keys matched each other", "C11", "KF-C11-null-keys-match-in-nested-loop"),
 ("free space check of TmpTuplePage wrapped around", "C11", "KF-C11-tmp-tuple-page-wrap"),
 ("block pages of a new hash index were not written", "C07", "KF-C07-hash-block-pages-not-on-file"),
 ("data race between statistics update and query planning", "C19", "KF-C19-race-statistics"),
 ("data race on TableHeap.lastPageID", "C19", "KF-C19-race-last-page-id"),
 ("data race on the stop flag of RequestManager", "C19", "KF-C19-race-request-manager-stop-flag"),
]

def sh(cmd, **kw):
    return subprocess.run(cmd, shell=True, stdout=subprocess.PIPE, stderr=subprocess.STDOUT, text=True, **kw)

log = sh("git -C /repo log --format='%h %s'").stdout.splitlines()
fixes = [(l.split()[0], l.split(" ", 1)[1][5:]) for l in log if l.split(" ", 1)[1].startswith("fix: ")]
checks = json.load(open(os.path.join(ROOT, "checks.json")))
results = []
for (h, subj) in reversed(fixes):
    m = [x for x in MAP if subj.startswith(x[0])]
    if not m:
        results.append((h, subj[:60], "NO-MAPPING"))
        continue
    _, prop, kfid = m[0]
    if only and not any(h.startswith(o) or kfid == o for o in only):
        continue
    if prop not in checks:
        results.append((h, kfid, "check %s not built yet" % prop))
        continue
    sh("git -C %s checkout -q --detach %s && git -C %s checkout -q -- ." % (WT, sh("git -C /repo rev-parse HEAD").stdout.strip(), WT))
    r = sh("git -C /repo show %s | git -C %s apply -R" % (h, WT))
    if r.returncode != 0:
        results.append((h, kfid, "revert does not apply cleanly: " + r.stdout[:200].replace("\n", " ")))
        continue
    found = None
    rdir = "/tmp/hv-replays-" + kfid
    shutil.rmtree(rdir, ignore_errors=True)
    for seed in (1, 2, 3, 4):
        env = dict(os.environ, VERIF_REPO_LIB=WT + "/lib", VERIF_REPLAY_DIR=rdir, VERIF_SEED=str(seed), VERIF_NO_EXCLUSIONS="0")
        out = sh("./check %s --no-evidence" % prop, cwd=ROOT, env=env).stdout
        viol = [l for l in out.splitlines() if l.startswith("VIOLATION")]
        if viol:
            # prefer generated (shrunk) replays; a failing committed corpus case also counts
            files = sorted(glob.glob(rdir + "/*.json"), key=os.path.getsize)
            found = (files[0] if files else None, viol[0], out)
            break
    if not found:
        results.append((h, kfid, "NOT DETECTED by %s (4 seeds)" % prop))
        continue
    dst = os.path.join(ROOT, "corpus", prop.lower(), kfid[len("KF-%s-" % prop):] + ".json")
    os.makedirs(os.path.dirname(dst), exist_ok=True)
    if found[0]:
        d = json.load(open(found[0]))
        d["expect"] = "known:" + kfid
        d["note"] = "fails when commit %s is reverted: %s" % (h, subj[:150])
        if isinstance(d.get("failure", {}).get("extra"), (str, dict)):
            ex = d["failure"]["extra"]
            d["failure"].pop("extra", None)
        if not os.path.exists(dst):
            json.dump(d, open(dst, "w"), indent=1)
        results.append((h, kfid, "detected: " + found[1][:80] + " -> " + os.path.relpath(dst, ROOT)))
    else:
        results.append((h, kfid, "detected by committed corpus case: " + found[1][:100]))
    shutil.rmtree(rdir, ignore_errors=True)
sh("git -C %s checkout -q -- ." % WT)
for r in results:
    print(" | ".join(r))
json.dump(results, open("/tmp/harvest_results.json", "w"), indent=1)
