#!/bin/bash
# usage: take_seed.sh <worktree> <seed-id> <property> "<checks to run>"
# Confirms a sub-agent's seeded change (compiles, demo fails with / passes without), stores it under
# /verif/seeded/<seed-id>/ and runs the named checks against it (patch applied to /repo, then undone).
wt=$1; sid=$2; prop=$3; checks=$4
export GOFLAGS=-mod=mod GOPROXY=off GOSUMDB=off GOTOOLCHAIN=local
d=/verif/seeded/$sid; mkdir -p $d
cd $wt || exit 1
git diff -- . ':(exclude)*_test.go' > $d/patch.diff
demo=$(git status --short | grep '^??' | grep '_test.go' | awk '{print $2}' | head -1)
[ -n "$demo" ] && cp $demo $d/ 
cp SEED_REPORT.md $d/ 2>/dev/null
pkg=./$(dirname ${demo#lib/})
name='TestSeed.*' # all demo tests of the file (controls pass either way; at least one must fail with the change)
echo "demo: $demo pkg $pkg test $name"
(cd lib && go build ./... ) || { echo "BUILD FAILS"; exit 1; }
tags=""; grep -q '^//go:build verif' $demo && tags="-tags verif"
# demos of data races need the race detector (SEED_RACE=1, or the agent's report says so)
if [ -n "$SEED_RACE" ] || grep -qi 'go test -race' SEED_REPORT.md 2>/dev/null; then tags="$tags -race -gcflags=all=-d=checkptr=0"; fi
with=$(cd lib && go test $tags -vet=off -count=1 -run "^$name" $pkg 2>&1 | grep -E "^(ok|FAIL|---|panic)" | tail -1)
git apply -R $d/patch.diff || { echo "cannot revert patch"; exit 1; }
without=$(cd lib && go test $tags -vet=off -count=1 -run "^$name" $pkg 2>&1 | grep -E "^(ok|FAIL|---|panic)" | tail -1)
git apply $d/patch.diff
echo "with change:    $with"; echo "without change: $without"
# run the checks against /repo with the patch applied
# SEED_VIA_WT=1: build the checks against the agent's worktree (development aid VERIF_REPO_LIB) instead of patching /repo,
# for use while something else is building from /repo
if [ -n "$SEED_VIA_WT" ]; then
  (cd /repo && git apply --check $d/patch.diff) || { echo "PATCH DOES NOT APPLY TO /repo"; exit 1; }
  export VERIF_REPO_LIB=$wt/lib
else
  cd /repo && git apply $d/patch.diff || { echo "PATCH DOES NOT APPLY TO /repo"; exit 1; }
fi
res=""
for c in $checks; do
  out=$(cd /verif && VERIF_REPLAY_DIR=/tmp/seed-replays-$sid ./check $c --no-evidence 2>&1)
  v=$(echo "$out" | grep -c '^VIOLATION'); first=$(echo "$out" | grep -A1 '^VIOLATION' | sed -n 2p | cut -c1-200)
  echo "check $c: $v violation lines; $first"
  res="$res{\"check\":\"$c\",\"violation_lines\":$v,\"first\":$(python3 -c 'import json,sys;print(json.dumps(sys.argv[1]))' "$first")},"
done
[ -z "$SEED_VIA_WT" ] && git -C /repo checkout -- . ; git -C /repo status --short | head -3
python3 - "$d" "$sid" "$prop" "$with" "$without" "[${res%,}]" <<'PY'
import json,sys
d,sid,prop,w,wo,res=sys.argv[1:7]
meta={"seed_id":sid,"breaks_property":prop,"demo_with_change":w,"demo_without_change":wo,"checks_run":json.loads(res),
      "how_run":"patch.diff applied to /repo (git apply) - or, while other runs were building from /repo, the checks built against the worktree holding the patch (VERIF_REPO_LIB) - then ./check <ID> --no-evidence at VERIF_SEED=1 quick tier, then git checkout -- ."}
try:
    old=json.load(open(d+'/meta.json')); meta={**old,**meta}
except Exception: pass
json.dump(meta,open(d+'/meta.json','w'),indent=1)
PY
rm -rf /tmp/seed-replays-$sid
